/*
 * iofault.so — LD_PRELOAD shim that puts the libc read/write boundary of one process under
 * the simulator's control (engine E4, property C16).
 *
 * The shim draws no random numbers and reads no clock. It executes an explicit schedule
 * (file named by IOFAULT_SCHEDULE) written by the driver:
 *
 *     r n <k>     the next intercepted read transfers at most k bytes
 *     r e <errno> the next intercepted read fails with that errno, transferring nothing
 *     r -         the next intercepted read is passed through
 *     w ...       same for writes
 *     R n <k> | R e <errno> | R -     default for reads beyond the listed entries
 *     W ...                             default for writes beyond the listed entries
 *     s i <ino>   every stat answer about the file behind standard output reports inode number
 *                 <ino> on another device (an output file on a second file system whose inode
 *                 number happens to equal that of an input file)
 *     t n <k>     only the first k calls of pthread_create succeed, later ones fail with EAGAIN
 *                 (what RLIMIT_NPROC, pids.max or a lack of memory for the stack do)
 *
 * Intercepted: read/readv on fd 0 and on files opened through a relative path or a path
 * below IOFAULT_DIR; write/writev on fd 1. Everything else (stderr, what the runtime opens
 * for itself) is passed through untouched. Each intercepted call is appended to the log
 * (IOFAULT_LOG):  "<r|w> <fd> <requested> <action> <result> <errno>",  opens as "o <fd> <path>".
 */
#define _GNU_SOURCE
#include <dlfcn.h>
#include <errno.h>
#include <fcntl.h>
#include <pthread.h>
#include <stdarg.h>
#include <stdio.h>
#include <stdlib.h>
#include <string.h>
#include <sys/resource.h>
#include <sys/stat.h>
#include <sys/sysmacros.h>
#include <sys/types.h>
#include <sys/uio.h>
#include <unistd.h>

#define MAXE 65536
#define MAXFD 4096

typedef struct {
    char kind; /* 'n', 'e', '-' */
    long arg;
} entry_t;

static entry_t rd[MAXE], wr[MAXE];
static int nrd, nwr, ird, iwr;
static entry_t rd_default = {'-', 0}, wr_default = {'-', 0};
static unsigned char tracked[MAXFD];
static const char *dir_prefix;
static size_t dir_prefix_len;
static int logfd = -1;
static int ready;
static long threads_allowed = -1; /* -1: unlimited */
static long long alias_ino = -1;  /* -1: stat answers are passed through */
static unsigned long long out_dev, out_ino; /* real identity of the file behind fd 1 */
static int out_is_reg;
static int ithr;

static ssize_t (*real_read)(int, void *, size_t);
static ssize_t (*real_write)(int, const void *, size_t);
static int (*real_open)(const char *, int, ...);
static int (*real_open64)(const char *, int, ...);
static int (*real_openat)(int, const char *, int, ...);
static int (*real_openat64)(int, const char *, int, ...);
static int (*real_close)(int);

static void logline(const char *fmt, ...) {
    if (logfd < 0) return;
    char buf[512];
    va_list ap;
    va_start(ap, fmt);
    int n = vsnprintf(buf, sizeof buf, fmt, ap);
    va_end(ap);
    if (n > 0) {
        if ((size_t)n >= sizeof buf) {
            /* truncated by vsnprintf: keep one line per record */
            n = sizeof buf - 1;
            buf[n - 1] = '\n';
        }
        ssize_t off = 0;
        while (off < n) {
            ssize_t w = real_write(logfd, buf + off, (size_t)(n - off));
            if (w <= 0) break;
            off += w;
        }
    }
}

static ssize_t (*real_readv)(int, const struct iovec *, int);
static ssize_t (*real_writev)(int, const struct iovec *, int);

static void resolve(void) {
    /* real_read is published last: a second thread that sees it set sees all of them set */
    if (__atomic_load_n(&real_read, __ATOMIC_ACQUIRE)) return;
    real_write = dlsym(RTLD_NEXT, "write");
    real_open = dlsym(RTLD_NEXT, "open");
    real_open64 = dlsym(RTLD_NEXT, "open64");
    if (!real_open64) real_open64 = real_open;
    real_openat = dlsym(RTLD_NEXT, "openat");
    real_openat64 = dlsym(RTLD_NEXT, "openat64");
    if (!real_openat64) real_openat64 = real_openat;
    real_close = dlsym(RTLD_NEXT, "close");
    real_readv = dlsym(RTLD_NEXT, "readv");
    real_writev = dlsym(RTLD_NEXT, "writev");
    __atomic_store_n(&real_read, dlsym(RTLD_NEXT, "read"), __ATOMIC_RELEASE);
}

__attribute__((constructor)) static void init(void) {
    resolve();
    const char *sched = getenv("IOFAULT_SCHEDULE");
    const char *logp = getenv("IOFAULT_LOG");
    dir_prefix = getenv("IOFAULT_DIR");
    dir_prefix_len = dir_prefix ? strlen(dir_prefix) : 0;
    if (logp) {
        logfd = real_open64(logp, O_WRONLY | O_CREAT | O_APPEND | O_CLOEXEC, 0644);
        if (logfd >= 0 && logfd < 100) {
            /* move out of the way of the fds the program will get: to 700, or to the highest
             * descriptor a lowered RLIMIT_NOFILE still allows */
            int want = 700;
            struct rlimit rl;
            if (getrlimit(RLIMIT_NOFILE, &rl) == 0 && rl.rlim_cur != RLIM_INFINITY && rl.rlim_cur <= (rlim_t)want)
                want = rl.rlim_cur > 4 ? (int)rl.rlim_cur - 1 : logfd;
            int nfd = want > logfd ? fcntl(logfd, F_DUPFD_CLOEXEC, want) : -1;
            if (nfd >= 0) {
                real_close(logfd);
                logfd = nfd;
            }
        }
    }
    if (sched) {
        FILE *f = fopen(sched, "r");
        if (f) {
            char which, kind;
            char line[128];
            while (fgets(line, sizeof line, f)) {
                long arg = 0;
                which = 0;
                kind = 0;
                int n = sscanf(line, " %c %c %ld", &which, &kind, &arg);
                if (n < 2) continue;
                entry_t e = {kind, arg};
                if (which == 'r' && nrd < MAXE) rd[nrd++] = e;
                else if (which == 'w' && nwr < MAXE) wr[nwr++] = e;
                else if (which == 'r' || which == 'w') logline("! schedule longer than %d entries: the rest is ignored\n", MAXE);
                else if (which == 't' && kind == 'n') threads_allowed = arg;
                else if (which == 's' && kind == 'i') alias_ino = arg;
                else if (which == 'R') rd_default = e;
                else if (which == 'W') wr_default = e;
            }
            fclose(f);
        }
    }
    if (alias_ino >= 0) {
        struct stat st;
        int (*rf)(int, struct stat *) = dlsym(RTLD_NEXT, "fstat");
        if (rf && rf(1, &st) == 0 && S_ISREG(st.st_mode)) {
            out_dev = (unsigned long long)st.st_dev;
            out_ino = (unsigned long long)st.st_ino;
            out_is_reg = 1;
        }
    }
    ready = 1;
}

static int track_path(const char *path) {
    if (!path) return 0;
    if (path[0] != '/') return 1;
    if (dir_prefix_len && strncmp(path, dir_prefix, dir_prefix_len) == 0) return 1;
    return 0;
}

static void note_open(int fd, const char *path) {
    if (!ready || fd < 0 || fd >= MAXFD) return;
    if (track_path(path)) {
        tracked[fd] = 1;
        logline("o %d %s\n", fd, path);
    } else {
        tracked[fd] = 0;
    }
}

static mode_t get_mode(int flags, va_list ap) {
    if ((flags & O_CREAT) || (flags & O_TMPFILE) == O_TMPFILE) return (mode_t)va_arg(ap, int);
    return 0;
}

int open(const char *path, int flags, ...) {
    resolve();
    va_list ap;
    va_start(ap, flags);
    mode_t m = get_mode(flags, ap);
    va_end(ap);
    int fd = real_open(path, flags, m);
    note_open(fd, path);
    return fd;
}

int open64(const char *path, int flags, ...) {
    resolve();
    va_list ap;
    va_start(ap, flags);
    mode_t m = get_mode(flags, ap);
    va_end(ap);
    int fd = real_open64(path, flags, m);
    note_open(fd, path);
    return fd;
}

int openat(int dirfd, const char *path, int flags, ...) {
    resolve();
    va_list ap;
    va_start(ap, flags);
    mode_t m = get_mode(flags, ap);
    va_end(ap);
    int fd = real_openat(dirfd, path, flags, m);
    if (dirfd == AT_FDCWD) note_open(fd, path);
    return fd;
}

int openat64(int dirfd, const char *path, int flags, ...) {
    resolve();
    va_list ap;
    va_start(ap, flags);
    mode_t m = get_mode(flags, ap);
    va_end(ap);
    int fd = real_openat64(dirfd, path, flags, m);
    if (dirfd == AT_FDCWD) note_open(fd, path);
    return fd;
}

int close(int fd) {
    resolve();
    if (fd >= 0 && fd < MAXFD) tracked[fd] = 0;
    return real_close(fd);
}

static int is_read_target(int fd) {
    return ready && (fd == 0 || (fd > 2 && fd < MAXFD && tracked[fd]));
}

static int is_write_target(int fd) { return ready && fd == 1; }

ssize_t read(int fd, void *buf, size_t count) {
    resolve();
    if (!is_read_target(fd)) return real_read(fd, buf, count);
    int my = __atomic_fetch_add(&ird, 1, __ATOMIC_SEQ_CST); /* one schedule entry per call, also with several threads */
    entry_t e = my < nrd ? rd[my] : rd_default;
    if (e.kind == 'e') {
        logline("r %d %zu e%ld -1 %ld\n", fd, count, e.arg, e.arg);
        errno = (int)e.arg;
        return -1;
    }
    size_t n = count;
    if (e.kind == 'n' && e.arg >= 1 && (size_t)e.arg < n) n = (size_t)e.arg;
    ssize_t r = real_read(fd, buf, n);
    int saved = errno;
    logline("r %d %zu %c%ld %zd %d\n", fd, count, e.kind, e.kind == 'n' ? e.arg : 0L, r, r < 0 ? saved : 0);
    errno = saved;
    return r;
}

ssize_t write(int fd, const void *buf, size_t count) {
    resolve();
    if (!is_write_target(fd)) return real_write(fd, buf, count);
    int my = __atomic_fetch_add(&iwr, 1, __ATOMIC_SEQ_CST);
    entry_t e = my < nwr ? wr[my] : wr_default;
    if (e.kind == 'e') {
        logline("w %d %zu e%ld -1 %ld\n", fd, count, e.arg, e.arg);
        errno = (int)e.arg;
        return -1;
    }
    size_t n = count;
    if (e.kind == 'n' && e.arg >= 1 && (size_t)e.arg < n) n = (size_t)e.arg;
    ssize_t r = real_write(fd, buf, n);
    int saved = errno;
    logline("w %d %zu %c%ld %zd %d\n", fd, count, e.kind, e.kind == 'n' ? e.arg : 0L, r, r < 0 ? saved : 0);
    errno = saved;
    return r;
}

/* Vectored I/O on an intercepted descriptor consumes one schedule entry per call, like the
 * scalar calls: a pass entry goes to the real readv/writev untouched; a size limit or an error
 * is served through the scalar path on the first non-empty segment (a legal short transfer). */
ssize_t readv(int fd, const struct iovec *iov, int iovcnt) {
    resolve();
    if (!is_read_target(fd)) return real_readv(fd, iov, iovcnt);
    int my = __atomic_load_n(&ird, __ATOMIC_SEQ_CST);
    entry_t e = my < nrd ? rd[my] : rd_default;
    if (e.kind == '-') {
        __atomic_fetch_add(&ird, 1, __ATOMIC_SEQ_CST);
        size_t total = 0;
        for (int i = 0; i < iovcnt; i++) total += iov[i].iov_len;
        ssize_t r = real_readv(fd, iov, iovcnt);
        int saved = errno;
        logline("r %d %zu -0 %zd %d\n", fd, total, r, r < 0 ? saved : 0);
        errno = saved;
        return r;
    }
    for (int i = 0; i < iovcnt; i++)
        if (iov[i].iov_len) return read(fd, iov[i].iov_base, iov[i].iov_len);
    return 0;
}

ssize_t writev(int fd, const struct iovec *iov, int iovcnt) {
    resolve();
    if (!is_write_target(fd)) return real_writev(fd, iov, iovcnt);
    int my = __atomic_load_n(&iwr, __ATOMIC_SEQ_CST);
    entry_t e = my < nwr ? wr[my] : wr_default;
    if (e.kind == '-') {
        __atomic_fetch_add(&iwr, 1, __ATOMIC_SEQ_CST);
        size_t total = 0;
        for (int i = 0; i < iovcnt; i++) total += iov[i].iov_len;
        ssize_t r = real_writev(fd, iov, iovcnt);
        int saved = errno;
        logline("w %d %zu -0 %zd %d\n", fd, total, r, r < 0 ? saved : 0);
        errno = saved;
        return r;
    }
    for (int i = 0; i < iovcnt; i++)
        if (iov[i].iov_len) return write(fd, iov[i].iov_base, iov[i].iov_len);
    return 0;
}

int pthread_create(pthread_t *t, const pthread_attr_t *a, void *(*fn)(void *), void *arg) {
    static int (*real_pc)(pthread_t *, const pthread_attr_t *, void *(*)(void *), void *);
    if (!real_pc) real_pc = dlsym(RTLD_NEXT, "pthread_create");
    resolve();
    int my = __atomic_fetch_add(&ithr, 1, __ATOMIC_SEQ_CST);
    if (ready && threads_allowed >= 0 && my >= threads_allowed) {
        logline("t %d refused\n", my);
        return EAGAIN;
    }
    int r = real_pc(t, a, fn, arg);
    if (ready) logline("t %d %d\n", my, r);
    return r;
}

/* stat family: answers about the file behind standard output get the inode number given by the
 * schedule and a device number that differs from the real one. Everything else passes through. */
static void alias_stat(struct stat *st, const char *how) {
    if (!ready || alias_ino < 0 || !out_is_reg || !st) return;
    if ((unsigned long long)st->st_dev == out_dev && (unsigned long long)st->st_ino == out_ino) {
        st->st_ino = (ino_t)alias_ino;
        st->st_dev ^= 1;
        logline("s %s aliased\n", how);
    }
}

int fstat(int fd, struct stat *st) {
    static int (*real)(int, struct stat *);
    if (!real) real = dlsym(RTLD_NEXT, "fstat");
    resolve();
    int r = real(fd, st);
    if (r == 0) alias_stat(st, "fstat");
    return r;
}

#ifdef __USE_LARGEFILE64
int fstat64(int fd, struct stat64 *st) {
    static int (*real)(int, struct stat64 *);
    if (!real) real = dlsym(RTLD_NEXT, "fstat64");
    resolve();
    int r = real(fd, st);
    /* struct stat and struct stat64 are the same type on 64-bit Linux */
    if (r == 0 && sizeof(struct stat64) == sizeof(struct stat)) alias_stat((struct stat *)st, "fstat64");
    return r;
}
#endif

int statx(int dirfd, const char *restrict path, int flags, unsigned int mask, struct statx *restrict stx) {
    static int (*real)(int, const char *restrict, int, unsigned int, struct statx *restrict);
    if (!real) real = dlsym(RTLD_NEXT, "statx");
    resolve();
    if (!real) {
        errno = ENOSYS;
        return -1;
    }
    int r = real(dirfd, path, flags, mask, stx);
    if (r == 0 && ready && alias_ino >= 0 && out_is_reg) {
        unsigned long long dev = ((unsigned long long)gnu_dev_makedev(stx->stx_dev_major, stx->stx_dev_minor));
        if (dev == out_dev && stx->stx_ino == out_ino) {
            stx->stx_ino = (unsigned long long)alias_ino;
            stx->stx_dev_minor ^= 1;
            logline("s statx aliased\n");
        }
    }
    return r;
}
