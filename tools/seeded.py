#!/usr/bin/env python3
"""Run registered checks against a seeded property-breaking change.

  tools/seeded.py run <id> [<check> ...] [--tier quick]   apply seeded/<id>/patch.diff to /repo, run the
                                                           checks, ALWAYS undo the patch, record result.json
  tools/seeded.py all [--tier quick]                       every seeded change against the check of its property
  tools/seeded.py benign [<id> ...]                        property-PRESERVING changes in benign/<id>/: checks must exit 0

The patch is never committed in /repo. Replay files produced while a patch is applied are moved
to .work/seeded-replays/<id>/ (they describe the patched tree, not /repo's)."""
import glob, json, os, shutil, subprocess, sys, time

VERIF = os.path.dirname(os.path.dirname(os.path.abspath(__file__)))
REPO = "/repo"  # --repo <scratch worktree> applies the patches there instead (and runs ./check with VERIF_REPO)


def sh(cmd, **kw):
    return subprocess.run(cmd, text=True, stdout=subprocess.PIPE, stderr=subprocess.STDOUT, **kw)


def clean_repo():
    r = sh(["git", "-C", REPO, "status", "--porcelain"])
    return r.stdout.strip() == ""


def run_one(sid, checks, tier, root="seeded"):
    d = os.path.join(VERIF, root, sid)
    patch = os.path.join(d, "patch.diff")
    meta = json.load(open(os.path.join(d, "meta.json")))
    if not checks:
        checks = [meta["property"]]
    if not clean_repo():
        sys.exit("refusing: /repo has uncommitted changes to tracked files")
    r = sh(["git", "-C", REPO, "apply", "--check", patch])
    if r.returncode != 0:
        sys.exit(f"patch does not apply: {r.stdout}")
    results = {}
    # evidence written while a patch is applied describes the patched tree: keep the real one
    ev, ev_bak = os.path.join(VERIF, "evidence"), os.path.join(VERIF, ".work", "evidence-backup")
    shutil.rmtree(ev_bak, ignore_errors=True)
    if os.path.isdir(ev) and REPO == "/repo":
        shutil.copytree(ev, ev_bak)
    sh(["git", "-C", REPO, "apply", patch])
    try:
        rdir = os.path.join(VERIF, "replays") if REPO == "/repo" else os.path.join(VERIF, ".work", "alt-" + REPO.strip("/").replace("/", "_"), "replays")
        before = set(glob.glob(os.path.join(rdir, "*")))
        for c in checks:
            t0 = time.time()
            env = dict(os.environ)
            if REPO != "/repo":
                env["VERIF_REPO"] = REPO
            r = sh([os.path.join(VERIF, "check"), c, "--tier", tier], cwd=VERIF, env=env)
            lines = [l for l in r.stdout.splitlines() if l.startswith("VIOLATION") or l.startswith("KNOWN-FINDING") or l.startswith("HARNESS-ERROR")]
            info = {"exit": r.returncode, "wall_s": round(time.time() - t0, 1), "lines": [l[:300] for l in lines]}
            info["violations"] = []
            for l in lines:
                if l.startswith("VIOLATION") and "replay=" in l:
                    p = l.split("replay=")[1].strip()
                    try:
                        doc = json.load(open(p))
                        info["violations"].append({"engine": doc.get("engine"), "class": doc.get("class"), "detail": (doc.get("detail") or "")[:400]})
                        info["class"] = "+".join(f"{v['engine']}:{v['class']}" for v in info["violations"])
                    except Exception:
                        info["violations"].append({"engine": "?", "replay": p})
            results[c] = info
            print(f"{sid}: {c} -> exit {r.returncode} {info.get('class','')} ({info['wall_s']}s)", flush=True)
        after = set(glob.glob(os.path.join(rdir, "*")))
        dest = os.path.join(VERIF, ".work", "seeded-replays", sid)
        os.makedirs(dest, exist_ok=True)
        for p in after - before:
            shutil.move(p, os.path.join(dest, os.path.basename(p)))
    finally:
        sh(["git", "-C", REPO, "apply", "-R", patch])
        sh(["git", "-C", REPO, "checkout", "--", "."])
        assert clean_repo(), "/repo is not clean after undoing the patch"
        if os.path.isdir(ev_bak) and REPO == "/repo":
            shutil.rmtree(ev, ignore_errors=True)
            shutil.copytree(ev_bak, ev)
    out = {"seeded": sid, "property": meta["property"], "tier": tier, "results": results,
           "caught": any(v["exit"] == 1 for v in results.values())}
    if root == "benign":
        out = {"benign": sid, "property": meta["property"], "tier": tier, "results": results,
               "false_alarm": any(v["exit"] != 0 for v in results.values())}
    json.dump(out, open(os.path.join(d, "result.json"), "w"), indent=1)
    return out


def main():
    global REPO
    a = sys.argv[1:]
    if "--repo" in a:
        i = a.index("--repo")
        REPO = a[i + 1]
        del a[i:i + 2]
    tier = "quick"
    if "--tier" in a:
        i = a.index("--tier")
        tier = a[i + 1]
        del a[i:i + 2]
    if not a:
        sys.exit(__doc__)
    if a[0] == "run":
        run_one(a[1], a[2:], tier)
    elif a[0] == "benign":
        # property-preserving changes: every check must stay silent (exit 0)
        ids = a[1:] or [os.path.basename(os.path.dirname(p)) for p in sorted(glob.glob(os.path.join(VERIF, "benign", "*", "meta.json")))]
        for i in ids:
            run_one(i, [], tier, root="benign")
    elif a[0] == "all":
        for d in sorted(glob.glob(os.path.join(VERIF, "seeded", "*", "meta.json"))):
            run_one(os.path.basename(os.path.dirname(d)), [], tier)
    else:
        sys.exit(__doc__)


if __name__ == "__main__":
    main()
