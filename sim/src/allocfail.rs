//! E2-allocfail — allocation failure as an injected fault while an automaton is built
//! (property C14, first sentence: the same input gives the same automaton, whatever the
//! environment). dsim's global allocator refuses every request of at least `FAIL_OVER` bytes
//! while armed. On the unchanged tree a refused allocation aborts the process
//! (`handle_alloc_error`), so each faulty build runs in a child process (`dsim image-of <run
//! seed> --nfb N --fail-alloc-over B`): it either dies / returns an error (nothing to compare)
//! or prints the hash of an automaton, which must be the one the fault-free build of the same
//! spec gives.

use std::alloc::{GlobalAlloc, Layout, System};
use std::sync::atomic::{AtomicU64, AtomicUsize, Ordering};
use std::time::Instant;

use serde_json::json;

use crate::batch::{self, arg, arg_u64, harness_error, Batch};
use crate::pma::{Spec, Variant};

pub struct FaultAlloc;

/// requests of at least this many bytes are refused (usize::MAX = never)
static FAIL_OVER: AtomicUsize = AtomicUsize::new(usize::MAX);
static REFUSED: AtomicU64 = AtomicU64::new(0);

unsafe impl GlobalAlloc for FaultAlloc {
    #[inline]
    unsafe fn alloc(&self, l: Layout) -> *mut u8 {
        if l.size() >= FAIL_OVER.load(Ordering::Relaxed) {
            REFUSED.fetch_add(1, Ordering::Relaxed);
            return std::ptr::null_mut();
        }
        System.alloc(l)
    }
    #[inline]
    unsafe fn alloc_zeroed(&self, l: Layout) -> *mut u8 {
        if l.size() >= FAIL_OVER.load(Ordering::Relaxed) {
            REFUSED.fetch_add(1, Ordering::Relaxed);
            return std::ptr::null_mut();
        }
        System.alloc_zeroed(l)
    }
    #[inline]
    unsafe fn realloc(&self, p: *mut u8, l: Layout, new_size: usize) -> *mut u8 {
        if new_size >= FAIL_OVER.load(Ordering::Relaxed) {
            REFUSED.fetch_add(1, Ordering::Relaxed);
            return std::ptr::null_mut();
        }
        System.realloc(p, l, new_size)
    }
    #[inline]
    unsafe fn dealloc(&self, p: *mut u8, l: Layout) {
        System.dealloc(p, l)
    }
}

pub fn arm(bytes: usize) {
    FAIL_OVER.store(bytes, Ordering::SeqCst);
}

pub fn disarm() -> u64 {
    FAIL_OVER.store(usize::MAX, Ordering::SeqCst);
    REFUSED.load(Ordering::SeqCst)
}

pub const ENGINE_ID: u64 = 8;

/// The spec of run seed `rs` for this engine: a seeded spec of moderate size with a large
/// `num_free_blocks` (the builder's working window is `block_len * num_free_blocks` elements,
/// allocated up front), and the threshold that refuses exactly allocations of that order.
/// A pattern set whose double-array layout depends on how far back the builder may look for
/// vacant elements: a few dozen to a few hundred states with many (but far from all) possible
/// children - they spread over more blocks than the default window and leave them half empty -
/// followed by thousands of single-child chains that fill such gaps while the blocks are still
/// within the window.
fn gappy_spec(rng: &mut crate::rng::Rng) -> Spec {
    use crate::pma::{Entry, Kind, VType};
    let variant = if rng.chance(1, 2) { Variant::Bytewise } else { Variant::Charwise };
    // alphabet: single bytes 1..=126, or (char-wise half of the time) 150-400 characters from U+0100 on
    let alpha: Vec<Vec<u8>> = if variant == Variant::Charwise && rng.chance(1, 2) {
        let n = rng.range(150, 400);
        (0..n).filter_map(|i| char::from_u32(0x100 + i as u32)).map(|c| c.to_string().into_bytes()).collect()
    } else {
        (1u8..=126).map(|b| vec![b]).collect()
    };
    let groups = rng.range(40, 160).min(alpha.len() - 2);
    let per_group = rng.range(alpha.len() / 5, alpha.len() / 2).max(8);
    let chains = rng.range(1500, 4000);
    let chain_len = rng.range(4, 6);
    let mut set = std::collections::BTreeSet::new();
    let wide_marker = alpha[alpha.len() - 1].clone();
    let chain_marker = alpha[alpha.len() - 2].clone();
    for g in 0..groups {
        for _ in 0..per_group {
            let mut p = wide_marker.clone();
            p.extend_from_slice(&alpha[g]);
            p.extend_from_slice(&alpha[rng.below(alpha.len() - 2)]);
            set.insert(p);
        }
    }
    for _ in 0..chains {
        let mut p = chain_marker.clone();
        for _ in 0..chain_len {
            p.extend_from_slice(&alpha[rng.below(alpha.len() - 2)]);
        }
        set.insert(p);
    }
    let mut patterns: Vec<Vec<u8>> = set.into_iter().collect();
    if rng.chance(1, 2) {
        rng.shuffle(&mut patterns);
    }
    let n = patterns.len();
    Spec {
        variant,
        kind: *rng.pick(&[Kind::Standard, Kind::Standard, Kind::LeftmostLongest, Kind::LeftmostFirst]),
        num_free_blocks: crate::pma::DEFAULT_NFB,
        entry: Entry::WithValues,
        vtype: *rng.pick(&[VType::U32, VType::U64, VType::U16]),
        patterns,
        values: (0..n as u64).collect(),
        ctor: false,
    }
}

pub fn spec_for(rs: u64) -> (Spec, u32, usize) {
    let mut grng = crate::rng::Rng::new(rs ^ 0x6A99);
    let gappy = grng.chance(2, 3);
    let mut spec = if gappy { gappy_spec(&mut grng) } else { crate::threads::generate_big_spec(rs) };
    let mut salt = 1u64;
    // layouts that depend on the window need several blocks; keep the children cheap
    while !gappy && (spec.patterns.len() < 150 || spec.patterns.len() > 3000 || spec.patterns.iter().any(|p| p.len() > 3000)) && salt < 12 {
        spec = crate::threads::generate_big_spec(rs ^ (salt << 40));
        salt += 1;
    }
    let block_len = match spec.variant {
        Variant::Bytewise => 256usize,
        Variant::Charwise => {
            let mut cs = std::collections::BTreeSet::new();
            for p in &spec.patterns {
                if let Ok(s) = std::str::from_utf8(p) {
                    cs.extend(s.chars());
                }
            }
            cs.len().next_power_of_two().max(2)
        }
    };
    let mut rng = crate::rng::Rng::new(rs ^ 0xA110C);
    // window of roughly 2^21 .. 2^23 elements (16 .. 64 MiB at 8 bytes each)
    let elems = *rng.pick(&[1usize << 21, 1 << 22, 1 << 23]);
    let nfb = (elems / block_len).max(17) as u32;
    // refuse what is at least a quarter of the window (the window itself for sure; hardly
    // anything else a build of this size asks for), or - one run in four - much smaller requests
    let window_bytes_min = elems * 4;
    let threshold = match rng.below(5) {
        0 => *rng.pick(&[1usize << 16, 1 << 18, 1 << 20]),
        // control: nothing is refused, the child's automaton must equal the parent's
        1 => usize::MAX / 2,
        _ => window_bytes_min / 2,
    };
    spec.ctor = false;
    (spec, nfb, threshold)
}

pub fn image_hash_nfb(spec: &Spec, nfb: u32) -> String {
    let mut s = spec.clone();
    s.num_free_blocks = nfb;
    s.ctor = false;
    crate::threads_cli::image_hash(&s)
}

/// `dsim image-of-lowmem <run seed>`: child side. Prints `image <hash>` (or `image err:...`).
pub fn cli_child(args: &[String]) -> i32 {
    let rs: u64 = args.first().and_then(|s| s.parse().ok()).unwrap_or_else(|| harness_error("image-of-lowmem: run seed required"));
    // no core file for the expected abort
    unsafe {
        let lim = libc::rlimit { rlim_cur: 0, rlim_max: 0 };
        libc::setrlimit(libc::RLIMIT_CORE, &lim);
    }
    let (spec, nfb, threshold) = spec_for(rs);
    let threshold = arg(args, "--fail-alloc-over").and_then(|s| s.parse().ok()).unwrap_or(threshold);
    let mut s = spec.clone();
    s.num_free_blocks = nfb;
    arm(threshold);
    let r = crate::pma::build(&s).map(|p| p.serialize());
    let refused = disarm();
    let h = match r {
        Ok(img) => {
            use std::hash::{Hash, Hasher};
            let mut h = std::collections::hash_map::DefaultHasher::new();
            img.hash(&mut h);
            format!("{:016x}:{}", h.finish(), img.len())
        }
        Err(e) => format!("err:{e}"),
    };
    println!("image {h} refused={refused}");
    0
}

#[derive(Default)]
struct Local {
    runs: u64,
    completed: u64,
    completed_after_refusal: u64,
    died: u64,
    errored: u64,
    no_refusal: u64,
    window_sensitive: u64,
    lines: Vec<(u64, String)>,
    fail: Option<(u64, u64, serde_json::Value)>,
    samples: Vec<serde_json::Value>,
}

pub fn run_child(rs: u64, threshold: Option<usize>) -> (Option<String>, u64, bool) {
    let exe = std::env::current_exe().unwrap_or_else(|e| harness_error(&format!("current_exe: {e}")));
    let mut cmd = std::process::Command::new(exe);
    cmd.arg("image-of-lowmem").arg(rs.to_string());
    if let Some(t) = threshold {
        cmd.arg("--fail-alloc-over").arg(t.to_string());
    }
    let out = cmd.stdin(std::process::Stdio::null()).stderr(std::process::Stdio::null()).output().unwrap_or_else(|e| harness_error(&format!("spawn child: {e}")));
    let txt = String::from_utf8_lossy(&out.stdout);
    for l in txt.lines() {
        if let Some(rest) = l.strip_prefix("image ") {
            let mut it = rest.split(' ');
            let h = it.next().unwrap_or("").to_string();
            let refused = it.next().and_then(|x| x.strip_prefix("refused=")).and_then(|x| x.parse().ok()).unwrap_or(0);
            return (Some(h), refused, out.status.success());
        }
    }
    (None, 0, out.status.success())
}

pub fn cli(args: &[String]) -> i32 {
    let seed = arg_u64(args, "--seed", 1);
    let runs = arg_u64(args, "--runs", 300);
    let workers = arg_u64(args, "--workers", 16) as usize;
    let out = arg(args, "--out").unwrap_or("/verif/.work/allocfail.json").to_string();
    let replay_dir = arg(args, "--replay-dir").unwrap_or("/verif/replays").to_string();
    let dump_log = arg(args, "--dump-log").map(|s| s.to_string());
    let t0 = Instant::now();
    println!("engine=allocfail seed={seed} runs={runs} workers={workers}");
    let b = Batch { seed, engine: ENGINE_ID, runs, workers };
    let locals: Vec<Local> = batch::run_batch(&b, |k, rs, l: &mut Local| {
        let (spec, nfb, threshold) = spec_for(rs);
        let reference = image_hash_nfb(&spec, nfb);
        // does the layout of this automaton depend on the size of the window at all?
        let sensitive = image_hash_nfb(&spec, crate::pma::DEFAULT_NFB) != reference;
        if sensitive {
            l.window_sensitive += 1;
        }
        batch::heartbeat();
        let (got, refused, _ok) = run_child(rs, None);
        l.runs += 1;
        let outcome = match &got {
            None => {
                l.died += 1;
                "died".to_string()
            }
            Some(h) if h.starts_with("err:") => {
                l.errored += 1;
                "error".to_string()
            }
            Some(h) => {
                l.completed += 1;
                if refused > 0 {
                    l.completed_after_refusal += 1;
                } else {
                    l.no_refusal += 1;
                }
                h.clone()
            }
        };
        l.lines.push((k, format!("{k} {rs} {reference} {outcome}\n")));
        if l.samples.len() < 2 {
            l.samples.push(json!({"run": k, "run_seed": rs, "variant": spec.variant, "kind": spec.kind, "patterns": spec.patterns.len(), "num_free_blocks": nfb, "refuse_allocations_of_at_least": threshold, "outcome": outcome, "fault_free_image": reference}));
        }
        if let Some(h) = &got {
            if !h.starts_with("err:") && !reference.starts_with("err:") && *h != reference {
                if l.fail.is_none() {
                    l.fail = Some((k, rs, json!({"run_seed": rs, "num_free_blocks": nfb, "refuse_allocations_of_at_least": threshold, "patterns": spec.patterns.len(), "variant": spec.variant,
                        "fault_free_image": reference, "image_with_refused_allocations": h, "allocations_refused": refused})));
                }
                return true;
            }
        }
        false
    });
    let mut tot = Local::default();
    let mut fail: Option<(u64, u64, serde_json::Value)> = None;
    let mut lines = vec![];
    let mut samples = vec![];
    for l in locals {
        tot.runs += l.runs;
        tot.completed += l.completed;
        tot.completed_after_refusal += l.completed_after_refusal;
        tot.died += l.died;
        tot.errored += l.errored;
        tot.no_refusal += l.no_refusal;
        tot.window_sensitive += l.window_sensitive;
        lines.extend(l.lines);
        samples.extend(l.samples);
        if let Some(f) = l.fail {
            if fail.as_ref().map(|g| f.0 < g.0).unwrap_or(true) {
                fail = Some(f);
            }
        }
    }
    samples.sort_by_key(|s| s["run"].as_u64());
    samples.truncate(2);
    if let Some(p) = dump_log {
        lines.sort();
        let txt: String = lines.iter().map(|x| x.1.clone()).collect();
        std::fs::write(&p, txt).unwrap_or_else(|e| harness_error(&format!("write {p}: {e}")));
    }
    let mut replay = None;
    if let Some((k, rs, doc)) = &fail {
        let path = format!("{replay_dir}/C14-allocfail-{seed}-{k}.json");
        let d = json!({"engine": "allocfail", "property": "C14", "class": "build-depends-on-allocation-failure", "verif_seed": seed, "run": k, "run_seed": rs,
            "detail": "a build during which an allocation was refused completed and gave another automaton than the fault-free build of the same input and settings", "scenario": doc});
        std::fs::create_dir_all(&replay_dir).ok();
        std::fs::write(&path, serde_json::to_string_pretty(&d).unwrap()).unwrap_or_else(|e| harness_error(&format!("write {path}: {e}")));
        replay = Some(path);
    }
    let wall = t0.elapsed().as_secs_f64();
    let doc = json!({
        "engine": "E2-allocfail", "seed": seed, "runs": tot.runs, "evaluations": tot.runs,
        "builds_completed": tot.completed, "builds_completed_after_a_refused_allocation": tot.completed_after_refusal,
        "builds_aborted": tot.died, "builds_returning_an_error": tot.errored, "builds_without_refusal": tot.no_refusal, "specs_whose_layout_depends_on_the_window": tot.window_sensitive,
        "samples": samples, "wall_s": wall, "violations": if fail.is_some() { 1 } else { 0 }, "replay": replay,
    });
    if let Some(dir) = std::path::Path::new(&out).parent() {
        std::fs::create_dir_all(dir).ok();
    }
    std::fs::write(&out, serde_json::to_string_pretty(&doc).unwrap()).unwrap_or_else(|e| harness_error(&format!("write {out}: {e}")));
    println!("allocfail: {} builds with refused allocations in {wall:.1}s: {} aborted, {} returned an error, {} completed ({} of them after a refusal)", tot.runs, tot.died, tot.errored, tot.completed, tot.completed_after_refusal);
    if let Some(p) = replay {
        println!("VIOLATION property=C14 replay={p}");
        return 1;
    }
    0
}

pub fn replay(doc: &serde_json::Value) -> i32 {
    let rs = doc["scenario"]["run_seed"].as_u64().unwrap_or_else(|| harness_error("replay file: no run_seed"));
    let (spec, nfb, _) = spec_for(rs);
    let reference = image_hash_nfb(&spec, nfb);
    let (got, refused, _) = run_child(rs, doc["scenario"]["refuse_allocations_of_at_least"].as_u64().map(|x| x as usize));
    match got {
        Some(h) if !h.starts_with("err:") && h != reference => {
            println!("replayed: [build-depends-on-allocation-failure] fault-free image {reference}, image with {refused} refused allocation(s) {h}");
            1
        }
        other => {
            println!("replayed: no violation (fault-free image {reference}, faulty build: {other:?})");
            0
        }
    }
}
