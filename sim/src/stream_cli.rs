//! Batch driver, replay and evidence for E1 (property C12).

use std::collections::HashSet;
use std::time::Instant;

use serde_json::json;

use crate::batch::{self, arg, arg_u64, harness_error, Batch};
use crate::stream::{self, Counters, Scenario, Violation};

pub const ENGINE_ID: u64 = 1;

#[derive(Default)]
struct Local {
    c: Counters,
    runs: u64,
    sweep_runs: u64,
    scen: HashSet<u64>,
    nontrivial: HashSet<u64>,
    traces: HashSet<u64>,
    build_errors: u64,
    fail: Option<(u64, u64, Scenario, Violation)>,
    samples: Vec<serde_json::Value>,
    log: Vec<(u64, u64, u64)>,
}

pub fn run_caught(sc: &Scenario) -> stream::Outcome {
    match std::panic::catch_unwind(std::panic::AssertUnwindSafe(|| stream::run(sc))) {
        Ok(o) => o,
        Err(p) => {
            let msg = crate::panic_message(&p);
            if msg.starts_with("harness:") {
                harness_error(&msg);
            }
            if stream::reference_panics(sc) {
                // the slice entry point panics on this input too: not a C12 matter
                return stream::Outcome {
                    violation: None,
                    counters: Counters::default(),
                    trace_hash: 0,
                    nontrivial: false,
                    build_error: Some(format!("reference (slice) search panicked: {msg}")),
                };
            }
            stream::Outcome {
                violation: Some(Violation {
                    class: "panic".into(),
                    detail: format!("byte-iterator search panicked where the slice search does not: {msg}"),
                }),
                counters: Counters::default(),
                trace_hash: 0,
                nontrivial: false,
                build_error: None,
            }
        }
    }
}

fn account(l: &mut Local, k: u64, rs: u64, sc: &Scenario, sweep: bool) -> bool {
    let o = run_caught(sc);
    if sweep {
        l.sweep_runs += 1;
    } else {
        l.runs += 1;
    }
    l.c.add(&o.counters);
    let sh = stream::scenario_hash(sc);
    l.scen.insert(sh);
    l.traces.insert(o.trace_hash);
    if o.nontrivial {
        l.nontrivial.insert(sh);
        if l.samples.len() < 2 && !sweep && sc.events.len() <= 60 && sc.spec.patterns.len() <= 12 {
            l.samples.push(json!({"run": k, "run_seed": rs, "scenario": sc}));
        }
    }
    if o.build_error.is_some() {
        l.build_errors += 1;
    }
    if !sweep {
        l.log.push((k, sh, o.trace_hash));
    }
    if let Some(v) = o.violation {
        if l.fail.is_none() {
            l.fail = Some((k, rs, sc.clone(), v));
        }
        return true;
    }
    false
}

pub fn cli(args: &[String]) -> i32 {
    let seed = arg_u64(args, "--seed", 1);
    let runs = arg_u64(args, "--runs", 200_000);
    let sweeps = arg_u64(args, "--sweeps", 0);
    let workers = arg_u64(args, "--workers", 16) as usize;
    let out = arg(args, "--out").unwrap_or("/verif/.work/stream.json").to_string();
    let replay_dir = arg(args, "--replay-dir").unwrap_or("/verif/replays").to_string();
    let dump_log = arg(args, "--dump-log").map(|s| s.to_string());
    let t0 = Instant::now();
    println!("engine=stream seed={seed} runs={runs} sweeps={sweeps} workers={workers}");

    let b = Batch { seed, engine: ENGINE_ID, runs: runs + sweeps, workers };
    let locals: Vec<Local> = batch::run_batch(&b, |k, rs, l: &mut Local| {
        if k < runs {
            let sc = match std::panic::catch_unwind(|| stream::generate(rs)) {
                Ok(sc) => sc,
                Err(p) => harness_error(&format!("the E1 scenario generator panicked for run seed {rs}: {}", crate::panic_message(&p))),
            };
            account(l, k, rs, &sc, false)
        } else {
            // sweep: a sampled (automaton, content) with every truncation point, every method,
            // three canonical schedules
            // a cheap base: every sweep scenario rebuilds the automaton
            let mut base = stream::generate(rs);
            let mut salt = 1u64;
            while (base.spec.patterns.len() > 2000 || base.spec.patterns.iter().any(|p| p.len() > 2000)) && salt < 8 {
                base = stream::generate(rs ^ (salt << 32));
                salt += 1;
            }
            base.streams.truncate(1);
            if base.streams[0].len() > 64 {
                let cut = crate::gen::boundaries(base.spec.variant, &base.streams[0])
                    .into_iter()
                    .filter(|&c| c <= 64)
                    .max()
                    .unwrap_or(0);
                base.streams[0].truncate(cut);
            }
            for sc in stream::sweep_scenarios(&base) {
                batch::heartbeat();
                if account(l, k, rs, &sc, true) {
                    return true;
                }
            }
            false
        }
    });

    // aggregate
    let mut c = Counters::default();
    let (mut nruns, mut nsweep, mut berr) = (0u64, 0u64, 0u64);
    let mut scen = HashSet::new();
    let mut nontriv = HashSet::new();
    let mut traces = HashSet::new();
    let mut samples = vec![];
    let mut fail: Option<(u64, u64, Scenario, Violation)> = None;
    let mut log = vec![];
    for l in locals {
        c.add(&l.c);
        nruns += l.runs;
        nsweep += l.sweep_runs;
        berr += l.build_errors;
        scen.extend(l.scen);
        nontriv.extend(l.nontrivial);
        traces.extend(l.traces);
        samples.extend(l.samples);
        log.extend(l.log);
        if let Some(f) = l.fail {
            if fail.as_ref().map(|g| f.0 < g.0).unwrap_or(true) {
                fail = Some(f);
            }
        }
    }
    samples.sort_by_key(|s| s["run"].as_u64());
    samples.truncate(3);
    if let Some(p) = dump_log {
        log.sort();
        let txt: String = log.iter().map(|(k, s, t)| format!("{k} {s:016x} {t:016x}\n")).collect();
        std::fs::write(&p, txt).unwrap_or_else(|e| harness_error(&format!("write {p}: {e}")));
    }

    // A violation is reported (replay file, result file, VIOLATION line) before it is minimised:
    // whatever happens to the minimiser, the finding stands.
    let violations = if fail.is_some() { 1 } else { 0 };
    let replay_path = fail.as_ref().map(|(k, ..)| format!("{replay_dir}/C12-stream-{seed}-{k}.json"));
    let write_replay = |path: &str, k: u64, rs: u64, orig: &Scenario, fsc: &Scenario, fv: &Violation, minimised: bool| {
        let doc = json!({
            "engine": "stream", "property": "C12", "verif_seed": seed, "run": k, "run_seed": rs,
            "class": fv.class, "detail": fv.detail, "minimised": minimised,
            "original_events": orig.events.len(), "original_patterns": orig.spec.patterns.len(),
            "scenario": fsc,
        });
        std::fs::create_dir_all(&replay_dir).ok();
        std::fs::write(path, serde_json::to_string_pretty(&doc).unwrap())
            .unwrap_or_else(|e| harness_error(&format!("write {path}: {e}")));
    };
    if let (Some((k, rs, sc, v)), Some(path)) = (&fail, &replay_path) {
        eprintln!("run {k} (run_seed {rs}) violated C12: [{}] {}", v.class, v.detail);
        write_replay(path, *k, *rs, sc, sc, v, false);
    }

    let wall = t0.elapsed().as_secs_f64();
    let total = nruns + nsweep;
    let doc = json!({
        "engine": "E1-stream",
        "seed": seed,
        "runs": nruns,
        "sweep_runs": nsweep,
        "evaluations": total,
        "distinct_scenarios": scen.len(),
        "distinct_nontrivial": nontriv.len(),
        "distinct_interleavings": traces.len(),
        "build_errors": berr,
        "logical_steps": c.steps,
        "counters": c,
        "samples": samples,
        "wall_s": wall,
        "runs_per_hour": if wall > 0.0 { (total as f64 / wall * 3600.0) as u64 } else { 0 },
        "violations": violations,
        "replay": replay_path,
    });
    if let Some(dir) = std::path::Path::new(&out).parent() {
        std::fs::create_dir_all(dir).ok();
    }
    std::fs::write(&out, serde_json::to_string_pretty(&doc).unwrap())
        .unwrap_or_else(|e| harness_error(&format!("write {out}: {e}")));
    println!(
        "stream: {total} runs ({nsweep} sweep) in {wall:.1}s, {} distinct scenarios, {} non-trivial, {} interleavings",
        scen.len(), nontriv.len(), traces.len()
    );
    if let (Some((k, rs, sc, v)), Some(path)) = (&fail, &replay_path) {
        println!("VIOLATION property=C12 replay={path}");
        use std::io::Write;
        let _ = std::io::stdout().flush();
        let r = std::panic::catch_unwind(std::panic::AssertUnwindSafe(|| {
            let min = stream::minimise(sc, &v.class);
            let mo = run_caught(&min);
            (min, mo)
        }));
        match r {
            Ok((min, mo)) => {
                if let Some(mv) = mo.violation {
                    if mv.class == v.class {
                        write_replay(path, *k, *rs, sc, &min, &mv, true);
                    }
                }
            }
            Err(_) => eprintln!("note: the minimiser failed; the replay file holds the original scenario"),
        }
        return 1;
    }
    0
}

pub fn replay(doc: &serde_json::Value) -> i32 {
    let sc: Scenario = serde_json::from_value(doc["scenario"].clone())
        .unwrap_or_else(|e| harness_error(&format!("replay file: bad scenario: {e}")));
    let o = run_caught(&sc);
    match o.violation {
        Some(v) => {
            println!("replayed: [{}] {}", v.class, v.detail);
            println!("trace_hash={:016x}", o.trace_hash);
            1
        }
        None => {
            println!("replayed: no violation (trace_hash={:016x})", o.trace_hash);
            0
        }
    }
}
