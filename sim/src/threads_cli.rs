//! Batch drivers, replay and partial evidence for E2 (`threads`: C14, `lockstep`: C12).

use std::collections::HashSet;
use std::time::Instant;

use serde_json::json;

use crate::batch::{self, arg, arg_u64, harness_error, Batch};
use crate::threads::{self, Failure, Lockstep, Sched, TCounters, Workload};

pub const ENGINE_THREADS: u64 = 2;
pub const ENGINE_LOCKSTEP: u64 = 3;

fn sched_for(k: u64) -> Sched {
    match k % 5 {
        0 | 1 => Sched::Random,
        2 => Sched::Pct { depth: 2 },
        3 => Sched::Pct { depth: 3 },
        _ => Sched::Urw,
    }
}

#[derive(Default)]
struct Local {
    c: TCounters,
    workloads: u64,
    distinct: HashSet<(u64, u64)>,
    nontrivial: HashSet<(u64, u64)>,
    wl: HashSet<u64>,
    fail: Option<(u64, u64, serde_json::Value, Failure)>,
    samples: Vec<serde_json::Value>,
    log: Vec<(u64, u64, u64)>,
}

fn finish(
    name: &str,
    prop: &str,
    engine_label: &str,
    seed: u64,
    iterations: usize,
    locals: Vec<Local>,
    t0: Instant,
    out: &str,
    replay_dir: &str,
    dump_log: Option<String>,
    minimise: impl Fn(&serde_json::Value, &Failure, Sched, u64) -> (serde_json::Value, Failure),
) -> i32 {
    let mut c = TCounters::default();
    let mut workloads = 0;
    let mut distinct = HashSet::new();
    let mut nontrivial = HashSet::new();
    let mut wl = HashSet::new();
    let mut samples = vec![];
    let mut fail: Option<(u64, u64, serde_json::Value, Failure)> = None;
    let mut log = vec![];
    for l in locals {
        c.add(&l.c);
        workloads += l.workloads;
        distinct.extend(l.distinct);
        nontrivial.extend(l.nontrivial);
        wl.extend(l.wl);
        samples.extend(l.samples);
        log.extend(l.log);
        if let Some(f) = l.fail {
            if fail.as_ref().map(|g| f.0 < g.0).unwrap_or(true) {
                fail = Some(f);
            }
        }
    }
    samples.sort_by_key(|s| s["run"].as_u64());
    samples.truncate(3);
    if let Some(p) = dump_log {
        log.sort();
        let txt: String = log.iter().map(|(k, a, b)| format!("{k} {a:016x} {b:016x}\n")).collect();
        std::fs::write(&p, txt).unwrap_or_else(|e| harness_error(&format!("write {p}: {e}")));
    }
    // A violation is reported (replay file, result file, VIOLATION line) before it is minimised:
    // whatever happens to the minimiser, the finding stands.
    let violations = if fail.is_some() { 1 } else { 0 };
    let replay_path = fail.as_ref().map(|(k, ..)| format!("{replay_dir}/{prop}-{name}-{seed}-{k}.json"));
    let write_replay = |path: &str, k: u64, rs: u64, scen: &serde_json::Value, orig: &serde_json::Value, f: &Failure, minimised: bool| {
        let doc = json!({
            "engine": name, "property": prop, "verif_seed": seed, "run": k, "run_seed": rs,
            "class": f.class, "detail": f.detail, "minimised": minimised,
            "scheduler": sched_for(k), "scheduler_seed": rs, "iterations": iterations,
            "schedule": f.schedule,
            "scenario": scen,
            "original_scenario": orig,
        });
        std::fs::create_dir_all(replay_dir).ok();
        std::fs::write(path, serde_json::to_string_pretty(&doc).unwrap())
            .unwrap_or_else(|e| harness_error(&format!("write {path}: {e}")));
    };
    if let (Some((k, rs, scen, f)), Some(path)) = (&fail, &replay_path) {
        eprintln!("run {k} (run_seed {rs}) violated {prop}: [{}] {}", f.class, f.detail);
        write_replay(path, *k, *rs, scen, scen, f, false);
    }
    let wall = t0.elapsed().as_secs_f64();
    let doc = json!({
        "engine": engine_label,
        "seed": seed,
        "workloads": workloads,
        "distinct_workloads": wl.len(),
        "schedules_per_workload": iterations,
        "evaluations": c.schedules,
        "distinct_interleavings": distinct.len(),
        "distinct_nontrivial": nontrivial.len(),
        "logical_steps": c.steps,
        "counters": c,
        "samples": samples,
        "wall_s": wall,
        "runs_per_hour": if wall > 0.0 { (c.schedules as f64 / wall * 3600.0) as u64 } else { 0 },
        "violations": violations,
        "replay": replay_path,
    });
    if let Some(dir) = std::path::Path::new(out).parent() {
        std::fs::create_dir_all(dir).ok();
    }
    std::fs::write(out, serde_json::to_string_pretty(&doc).unwrap())
        .unwrap_or_else(|e| harness_error(&format!("write {out}: {e}")));
    println!(
        "{name}: {} schedules over {workloads} workloads in {wall:.1}s, {} distinct interleavings, {} non-trivial",
        c.schedules, distinct.len(), nontrivial.len()
    );
    if let (Some((k, rs, scen, f)), Some(path)) = (&fail, &replay_path) {
        println!("VIOLATION property={prop} replay={path}");
        use std::io::Write;
        let _ = std::io::stdout().flush();
        let sched = sched_for(*k);
        match std::panic::catch_unwind(std::panic::AssertUnwindSafe(|| minimise(scen, f, sched, *rs))) {
            Ok((min_scen, min_f)) => write_replay(path, *k, *rs, &min_scen, scen, &min_f, true),
            Err(_) => eprintln!("note: the minimiser failed; the replay file holds the original workload"),
        }
        return 1;
    }
    0
}

pub fn cli_threads(args: &[String]) -> i32 {
    let seed = arg_u64(args, "--seed", 1);
    let runs = arg_u64(args, "--runs", 2000);
    let iterations = arg_u64(args, "--iterations", 40) as usize;
    let workers = arg_u64(args, "--workers", 16) as usize;
    let out = arg(args, "--out").unwrap_or("/verif/.work/threads.json").to_string();
    let replay_dir = arg(args, "--replay-dir").unwrap_or("/verif/replays").to_string();
    let dump_log = arg(args, "--dump-log").map(|s| s.to_string());
    let t0 = Instant::now();
    println!("engine=threads seed={seed} workloads={runs} iterations={iterations} workers={workers}");
    let b = Batch { seed, engine: ENGINE_THREADS, runs, workers };
    let locals: Vec<Local> = batch::run_batch(&b, |k, rs, l: &mut Local| {
        let w = threads::generate(rs);
        let wh = threads::workload_hash(&w);
        let r = threads::explore(&w, sched_for(k), rs, iterations);
        l.workloads += 1;
        l.wl.insert(wh);
        l.c.add(&r.counters);
        let mut xor = 0u64;
        for (h, nt) in &r.executions {
            l.distinct.insert((wh, *h));
            if *nt {
                l.nontrivial.insert((wh, *h));
            }
            xor = xor.rotate_left(1) ^ *h;
        }
        l.log.push((k, wh, xor));
        if l.samples.len() < 2 && w.spec.patterns.len() <= 8 && r.executions.iter().any(|e| e.1) {
            l.samples.push(json!({"run": k, "run_seed": rs, "scheduler": sched_for(k), "workload": w}));
        }
        if let Some(f) = r.failure {
            if f.class == "harness" {
                harness_error(&f.detail);
            }
            if l.fail.is_none() {
                l.fail = Some((k, rs, serde_json::to_value(&w).unwrap(), f));
            }
            return true;
        }
        false
    });
    finish(
        "threads", "C14", "E2-threads", seed, iterations, locals, t0, &out, &replay_dir, dump_log,
        |scen, f, sched, rs| {
            let w: Workload = serde_json::from_value(scen.clone()).unwrap();
            let (mw, mf) = threads::minimise(&w, f, sched, rs, iterations);
            (serde_json::to_value(&mw).unwrap(), mf)
        },
    )
}

pub fn cli_lockstep(args: &[String]) -> i32 {
    let seed = arg_u64(args, "--seed", 1);
    let runs = arg_u64(args, "--runs", 2000);
    let iterations = arg_u64(args, "--iterations", 20) as usize;
    let workers = arg_u64(args, "--workers", 16) as usize;
    let out = arg(args, "--out").unwrap_or("/verif/.work/lockstep.json").to_string();
    let replay_dir = arg(args, "--replay-dir").unwrap_or("/verif/replays").to_string();
    let dump_log = arg(args, "--dump-log").map(|s| s.to_string());
    let t0 = Instant::now();
    println!("engine=lockstep seed={seed} scenarios={runs} iterations={iterations} workers={workers}");
    let b = Batch { seed, engine: ENGINE_LOCKSTEP, runs, workers };
    let locals: Vec<Local> = batch::run_batch(&b, |k, rs, l: &mut Local| {
        let ls = threads::lockstep_generate(rs);
        let wh = threads::lockstep_hash(&ls);
        let r = threads::lockstep_explore(&ls, sched_for(k), rs, iterations);
        l.workloads += 1;
        l.wl.insert(wh);
        l.c.add(&r.counters);
        let mut xor = 0u64;
        for (h, nt) in &r.executions {
            l.distinct.insert((wh, *h));
            if *nt {
                l.nontrivial.insert((wh, *h));
            }
            xor = xor.rotate_left(1) ^ *h;
        }
        l.log.push((k, wh, xor));
        if l.samples.len() < 2 && ls.spec.patterns.len() <= 8 && r.executions.iter().any(|e| e.1) {
            l.samples.push(json!({"run": k, "run_seed": rs, "scheduler": sched_for(k), "lockstep": ls}));
        }
        if let Some(f) = r.failure {
            if f.class == "harness" {
                harness_error(&f.detail);
            }
            if l.fail.is_none() {
                l.fail = Some((k, rs, serde_json::to_value(&ls).unwrap(), f));
            }
            return true;
        }
        false
    });
    finish(
        "lockstep", "C12", "E2-lockstep", seed, iterations, locals, t0, &out, &replay_dir, dump_log,
        |scen, f, sched, rs| {
            let ls: Lockstep = serde_json::from_value(scen.clone()).unwrap();
            let (m, mf) = threads::lockstep_minimise(&ls, f, sched, rs, iterations);
            (serde_json::to_value(&m).unwrap(), mf)
        },
    )
}

pub fn replay(doc: &serde_json::Value) -> i32 {
    let class = doc["class"].as_str().unwrap_or("");
    let schedule = doc["schedule"].as_str().unwrap_or("");
    let sched: Sched = serde_json::from_value(doc["scheduler"].clone()).unwrap_or(Sched::Random);
    let sseed = doc["scheduler_seed"].as_u64().unwrap_or(0);
    let iters = doc["iterations"].as_u64().unwrap_or(1) as usize;
    let f = match doc["engine"].as_str() {
        Some("threads") => {
            let w: Workload = serde_json::from_value(doc["scenario"].clone())
                .unwrap_or_else(|e| harness_error(&format!("replay file: bad workload: {e}")));
            if schedule.is_empty() {
                threads::explore(&w, sched, sseed, iters).failure
            } else {
                threads::replay_schedule(&w, schedule)
            }
        }
        Some("lockstep") => {
            let ls: Lockstep = serde_json::from_value(doc["scenario"].clone())
                .unwrap_or_else(|e| harness_error(&format!("replay file: bad scenario: {e}")));
            if schedule.is_empty() {
                threads::lockstep_explore(&ls, sched, sseed, iters).failure
            } else {
                threads::lockstep_replay(&ls, schedule)
            }
        }
        _ => harness_error("replay: not a threads/lockstep file"),
    };
    match f {
        Some(f) => {
            println!("replayed: [{}] {}", f.class, f.detail);
            if f.class != class {
                println!("note: recorded class was [{class}]");
            }
            1
        }
        None => {
            println!("replayed: no violation");
            0
        }
    }
}

// ---------------------------------------------------------------------------------------
// cross-process build determinism (C14, first sentence): the driver runs this twice in
// separate processes (different environment size, different worker count) and compares.

pub const ENGINE_IMAGES: u64 = 6;

pub fn image_hash(spec: &crate::pma::Spec) -> String {
    use std::hash::{Hash, Hasher};
    match crate::pma::build(spec) {
        Ok(p) => {
            let img = p.serialize();
            let mut h = std::collections::hash_map::DefaultHasher::new();
            img.hash(&mut h);
            format!("{:016x}:{}", h.finish(), img.len())
        }
        Err(e) => {
            let mut h = std::collections::hash_map::DefaultHasher::new();
            e.hash(&mut h);
            format!("err:{:016x}", h.finish())
        }
    }
}

#[derive(Default)]
struct ImgLocal {
    lines: Vec<(u64, String)>,
}

pub fn cli_images(args: &[String]) -> i32 {
    let seed = arg_u64(args, "--seed", 1);
    let runs = arg_u64(args, "--runs", 3000);
    let workers = arg_u64(args, "--workers", 16) as usize;
    let dump = arg(args, "--dump-log").unwrap_or_else(|| harness_error("images: --dump-log required")).to_string();
    let b = Batch { seed, engine: ENGINE_IMAGES, runs, workers };
    let perm_fail: std::sync::Mutex<Option<(u64, u64, serde_json::Value)>> = std::sync::Mutex::new(None);
    let locals: Vec<ImgLocal> = batch::run_batch(&b, |k, rs, l: &mut ImgLocal| {
        let w = Workload { spec: threads::generate_big_spec(rs), hays: vec![], threads: vec![], provenance: 0 };
        l.lines.push((k, format!("{k} {rs} {}\n", image_hash(&w.spec))));
        // permutation independence on the same spec (no schedule involved: plain seeded sampling);
        // half of the second builds also receive their input through an iterator that reports no
        // size (the same pairs in the same or a permuted order are the same input whatever the
        // iterator promises about its length)
        let permutable = w.spec.kind != crate::pma::Kind::LeftmostFirst && w.spec.patterns.len() > 1;
        // how the second build receives its patterns: references / behind an iterator without
        // size hint / owned objects produced lazily / inline objects by value
        let feed = ((rs >> 7) & 3) as u8;
        let opaque = feed != 0;
        if permutable || opaque {
            let mut rng = crate::rng::Rng::new(rs ^ 0x9E3779B9);
            let mut order: Vec<usize> = (0..w.spec.patterns.len()).collect();
            if permutable && (rs >> 9) & 3 != 0 {
                rng.shuffle(&mut order);
            }
            let a = crate::pma::build(&w.spec);
            let b2 = crate::pma::build_ordered_feed(&w.spec, &order, || {}, feed);
            let same = match (&a, &b2) {
                (Ok(x), Ok(y)) => x.serialize() == y.serialize() && x.same(&**y),
                // both fail: fine (messages may name a pattern or an index)
                (Err(_), Err(_)) => true,
                _ => false,
            };
            if !same {
                let mut g = perm_fail.lock().unwrap();
                if g.as_ref().map(|f| k < f.0).unwrap_or(true) {
                    *g = Some((k, rs, json!({"spec": w.spec, "order": order, "feed": feed})));
                }
                return true;
            }
        }
        false
    });
    if let Some((k, rs, doc)) = perm_fail.into_inner().unwrap() {
        let replay_dir = arg(args, "--replay-dir").unwrap_or("/verif/replays").to_string();
        let path = format!("{replay_dir}/C14-perm-{seed}-{k}.json");
        let doc = json!({"engine": "perm", "property": "C14", "class": "build-order-dependent", "run": k, "run_seed": rs,
            "detail": "building again from the same pattern/value pairs (in the recorded order; `feed`: 0 references, 1 no size hint, 2 owned objects produced lazily, 3 inline objects by value) gives a different automaton", "scenario": doc});
        std::fs::create_dir_all(&replay_dir).ok();
        std::fs::write(&path, serde_json::to_string_pretty(&doc).unwrap()).unwrap_or_else(|e| harness_error(&format!("write {path}: {e}")));
        println!("VIOLATION property=C14 replay={path}");
        return 1;
    }
    let mut all: Vec<(u64, String)> = locals.into_iter().flat_map(|l| l.lines).collect();
    all.sort();
    let txt: String = all.into_iter().map(|x| x.1).collect();
    std::fs::write(&dump, txt).unwrap_or_else(|e| harness_error(&format!("write {dump}: {e}")));
    println!("images: {runs} automata built and hashed");
    0
}

/// `dsim image-of <run_seed>`: print the image hash of the automaton of that run seed.
pub fn cli_image_of(args: &[String]) -> i32 {
    let rs: u64 = args.first().and_then(|s| s.parse().ok()).unwrap_or_else(|| harness_error("image-of: run seed required"));
    println!("{}", image_hash(&threads::generate_big_spec(rs)));
    0
}

pub fn replay_perm(doc: &serde_json::Value) -> i32 {
    let spec: crate::pma::Spec = serde_json::from_value(doc["scenario"]["spec"].clone())
        .unwrap_or_else(|e| harness_error(&format!("replay file: bad spec: {e}")));
    let order: Vec<usize> = serde_json::from_value(doc["scenario"]["order"].clone())
        .unwrap_or_else(|e| harness_error(&format!("replay file: bad order: {e}")));
    let feed = doc["scenario"]["feed"].as_u64().unwrap_or(if doc["scenario"]["opaque"].as_bool().unwrap_or(false) { 1 } else { 0 }) as u8;
    let a = crate::pma::build(&spec);
    let b = crate::pma::build_ordered_feed(&spec, &order, || {}, feed);
    let same = match (&a, &b) {
        (Ok(x), Ok(y)) => x.serialize() == y.serialize() && x.same(&**y),
        (Err(_), Err(_)) => true,
        _ => false,
    };
    if same {
        println!("replayed: no violation");
        0
    } else {
        println!("replayed: [build-order-dependent] permuted build differs");
        1
    }
}
