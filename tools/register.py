#!/usr/bin/env python3
"""tools/register.py <worktree> <seeded id> <property> <needs> <demo command> -- copy a confirmed seeded change into /verif/seeded/<id>/."""
import json, os, shutil, sys
wt, sid, prop, needs, demo = sys.argv[1:6]
confirm_log = sys.argv[6] if len(sys.argv) > 6 else None
d = os.path.join("/verif/seeded", sid)
os.makedirs(d, exist_ok=True)
src = os.path.join(wt, "seeded_out")
for f in os.listdir(src):
    p = os.path.join(src, f)
    if os.path.isfile(p):
        shutil.copy(p, os.path.join(d, f))
confirm = open(confirm_log).read() if confirm_log else ""
result = [l for l in confirm.splitlines() if l.startswith("RESULT build_exit")]
meta = {
    "id": sid, "property": prop, "needs_to_manifest": needs,
    "author": "independent sub-agent given only the property text and a scratch worktree",
    "demonstration": demo,
    "confirmed_by_me": {
        "how": "tools/confirm.sh in a scratch worktree outside /repo and /verif: git apply patch.diff; cargo build --workspace --offline; cargo test --workspace --no-fail-fast --offline; demonstration with the change; git checkout; demonstration without the change",
        "result": result[0] if result else "",
    },
}
json.dump(meta, open(os.path.join(d, "meta.json"), "w"), indent=1)
print("registered", d, result)
