//! E2 — several caller threads sharing one automaton under shuttle's seeded schedulers
//! (property C14), and the producer/consumer lock-step scenario for C12.
//!
//! daachorse runs unmodified. Scheduling points are owned by the harness: `AsRef::as_ref`
//! of the haystack (called by the slice iterators once per byte), `Iterator::next` of the
//! byte source, the pattern iterator and each pattern's `as_ref()` while building. Each of
//! them performs `shuttle::thread::sleep(0)`, a pure context switch.

use std::cell::RefCell;
use std::collections::hash_map::DefaultHasher;
use std::hash::{Hash, Hasher};
use std::sync::Arc;
use std::time::Duration;

use serde::{Deserialize, Serialize};
use shuttle::scheduler::{PctScheduler, RandomScheduler, ReplayScheduler, UrwRandomScheduler};
use shuttle_engine::runtime::execution::CurrentSchedule;
use shuttle_engine::scheduler::serialization::serialize_schedule;

use crate::gen::{self, GenOpts};
use crate::pma::{self, DynPma, Entry, Hay, Kind, Method, Mt, Spec, VType, Variant, STD_METHODS};
use crate::rng::Rng;

pub const MAX_THREADS: usize = 8;

#[derive(Clone, Copy, Debug, PartialEq, Eq, Hash, Serialize, Deserialize)]
pub enum Via {
    Slice,
    Iter,
}

#[derive(Clone, Debug, PartialEq, Eq, Hash, Serialize, Deserialize)]
pub struct Lane {
    pub method: Method,
    pub hay: usize,
    pub via: Via,
}

#[derive(Clone, Debug, PartialEq, Eq, Hash, Serialize, Deserialize)]
pub enum Op {
    Search(Lane),
    /// several live iterators on the shared automaton, stepped in the given lane order, then
    /// drained in lane order
    Multi { lanes: Vec<Lane>, order: Vec<u8> },
    Serialize,
    CloneCompare,
    Stats,
    /// build again from the same input while other threads search or build
    BuildAgain,
    /// build from a permutation of the same pattern/value pairs (not for leftmost-first)
    BuildPermuted { order: Vec<usize> },
}

#[derive(Clone, Debug, PartialEq, Eq, Hash, Serialize, Deserialize)]
pub struct Workload {
    pub spec: Spec,
    pub hays: Vec<Vec<u8>>,
    pub threads: Vec<Vec<Op>>,
    /// where the shared automaton comes from: 0 = the builder, 1 = a clone, 2 = restored from
    /// serialised bytes
    #[serde(default)]
    pub provenance: u8,
}

#[derive(Clone, Copy, Debug, PartialEq, Eq, Hash, Serialize, Deserialize)]
pub enum Sched {
    Random,
    Pct { depth: usize },
    /// uniform random walk over interleavings (Zhao et al., ASPLOS 2025)
    Urw,
}

#[derive(Clone, Debug, Serialize, Deserialize)]
pub struct Failure {
    pub class: String,
    pub detail: String,
    /// shuttle's encoded schedule of the failing execution
    pub schedule: String,
}

#[derive(Clone, Debug, Default, Serialize, Deserialize)]
pub struct TCounters {
    pub schedules: u64,
    pub steps: u64,
    pub switches: u64,
    // schedule shapes that actually occurred
    pub f_preempt_inside_search: u64,
    pub f_search_search_overlap_diff_method: u64,
    pub f_search_build_overlap: u64,
    pub f_build_build_overlap: u64,
    pub f_serialize_search_overlap: u64,
    pub f_sequential_degenerate: u64,
    // probes
    pub p_permuted_builds: u64,
    pub p_rebuilds: u64,
    pub p_multi_iter_ops: u64,
    pub p_nontrivial_schedules: u64,
}

impl TCounters {
    pub fn add(&mut self, o: &TCounters) {
        macro_rules! a { ($($f:ident),*) => { $( self.$f += o.$f; )* } }
        a!(
            schedules, steps, switches, f_preempt_inside_search,
            f_search_search_overlap_diff_method, f_search_build_overlap, f_build_build_overlap,
            f_serialize_search_overlap, f_sequential_degenerate, p_permuted_builds, p_rebuilds,
            p_multi_iter_ops, p_nontrivial_schedules
        );
    }
}

#[derive(Clone, Copy, PartialEq, Eq, Debug)]
enum Act {
    Idle,
    Search(Method, bool),
    Build,
    Other,
}

struct Trace {
    last: usize,
    h: DefaultHasher,
    act: [Act; MAX_THREADS + 1],
    c: TCounters,
    nontrivial: bool,
    any_overlap: bool,
    failure: Option<Failure>,
    /// (interleaving hash, nontrivial) of completed executions since the last `take`
    done: Vec<(u64, bool)>,
    in_shuttle: bool,
}

impl Trace {
    fn new() -> Self {
        Trace {
            last: usize::MAX,
            h: DefaultHasher::new(),
            act: [Act::Idle; MAX_THREADS + 1],
            c: TCounters::default(),
            nontrivial: false,
            any_overlap: false,
            failure: None,
            done: vec![],
            in_shuttle: false,
        }
    }
    fn begin_execution(&mut self) {
        self.last = usize::MAX;
        self.h = DefaultHasher::new();
        self.act = [Act::Idle; MAX_THREADS + 1];
        self.nontrivial = false;
        self.any_overlap = false;
        self.in_shuttle = true;
    }
    fn end_execution(&mut self) {
        self.c.schedules += 1;
        if self.nontrivial {
            self.c.p_nontrivial_schedules += 1;
        }
        if !self.any_overlap {
            self.c.f_sequential_degenerate += 1;
        }
        let h = self.h.finish();
        self.done.push((h, self.nontrivial));
        self.in_shuttle = false;
    }
}

thread_local! {
    static TR: RefCell<Trace> = RefCell::new(Trace::new());
}

fn me() -> usize {
    usize::from(shuttle::current::me()).min(MAX_THREADS)
}

/// The scheduling point.
pub fn yield_hook() {
    let id = me();
    TR.with(|t| {
        let mut t = t.borrow_mut();
        t.c.steps += 1;
        id.hash(&mut t.h);
        let last = t.last;
        if last != id && last != usize::MAX {
            t.c.switches += 1;
            let (a, b) = (t.act[id], t.act[last]);
            if b != Act::Idle && a != Act::Idle {
                t.any_overlap = true;
            }
            match (a, b) {
                (Act::Search(m1, nonempty), Act::Search(m2, _)) => {
                    t.c.f_preempt_inside_search += 1;
                    if m1 != m2 {
                        t.c.f_search_search_overlap_diff_method += 1;
                    }
                    if nonempty {
                        t.nontrivial = true;
                    }
                }
                (Act::Search(_, nonempty), Act::Build) | (Act::Search(_, nonempty), Act::Other) => {
                    t.c.f_preempt_inside_search += 1;
                    if b == Act::Build {
                        t.c.f_search_build_overlap += 1;
                    } else {
                        t.c.f_serialize_search_overlap += 1;
                    }
                    if nonempty {
                        t.nontrivial = true;
                    }
                }
                (Act::Build, Act::Search(..)) => t.c.f_search_build_overlap += 1,
                (Act::Build, Act::Build) => t.c.f_build_build_overlap += 1,
                _ => {}
            }
        }
        t.last = id;
    });
    shuttle::thread::sleep(Duration::from_nanos(0));
}

fn set_act(a: Act) {
    let id = me();
    TR.with(|t| t.borrow_mut().act[id] = a);
}

/// Record a property violation (with the schedule that led to it) and abort the execution.
fn fail(class: &str, detail: String) -> ! {
    let schedule = serialize_schedule(&CurrentSchedule::get_schedule());
    TR.with(|t| {
        let mut t = t.borrow_mut();
        if t.failure.is_none() {
            t.failure = Some(Failure {
                class: class.to_string(),
                detail,
                schedule,
            });
        }
    });
    panic!("violation recorded");
}

/// Called from the process-wide panic hook: if a panic happens inside a shuttle execution
/// without a recorded violation (library panic, deadlock, step budget), keep its schedule.
pub fn on_panic(msg: &str) {
    let _ = TR.try_with(|t| {
        if let Ok(mut t) = t.try_borrow_mut() {
            if t.in_shuttle && t.failure.is_none() {
                let schedule = serialize_schedule(&CurrentSchedule::get_schedule());
                let class = if msg.contains("deadlock") {
                    "deadlock"
                } else if msg.contains("exceeded max_steps") || msg.contains("max_steps") {
                    "no-return"
                } else if msg.starts_with("harness:") {
                    "harness"
                } else {
                    "panic"
                };
                t.failure = Some(Failure {
                    class: class.to_string(),
                    detail: msg.to_string(),
                    schedule,
                });
            }
        }
    });
}

struct YSource {
    bytes: Arc<[u8]>,
    pos: usize,
}

impl Iterator for YSource {
    type Item = u8;
    fn next(&mut self) -> Option<u8> {
        yield_hook();
        let b = self.bytes.get(self.pos).copied();
        if b.is_some() {
            self.pos += 1;
        }
        b
    }
}

fn open_lane<'a>(p: &'a dyn DynPma, hays: &[Arc<[u8]>], l: &Lane) -> pma::MatchIter<'a> {
    match l.via {
        Via::Slice => p.open_slice(
            l.method,
            Hay {
                bytes: hays[l.hay].clone(),
                hook: yield_hook,
            },
        ),
        Via::Iter => p.open_iter(
            l.method,
            Box::new(YSource {
                bytes: hays[l.hay].clone(),
                pos: 0,
            }),
        ),
    }
}

/// What the single-threaded run of every operation gives.
pub struct Baseline {
    pub image: Vec<u8>,
    pub stats: (usize, usize),
    /// results[(method, hay)]
    pub results: std::collections::HashMap<(Method, usize, Via), Vec<Mt>>,
    /// an automaton built once from the spec, never searched by the threads (reference for `==`)
    pub reference: Option<Box<dyn DynPma>>,
    pub build_err: Option<String>,
}

/// The sequential run of every operation. If it panics (a defect in construction or in a
/// search, present without any concurrency) the workload cannot be judged for C14.
pub fn baseline(w: &Workload) -> Baseline {
    match std::panic::catch_unwind(std::panic::AssertUnwindSafe(|| baseline_inner(w))) {
        Ok(b) => b,
        Err(_) => Baseline {
            image: vec![],
            stats: (0, 0),
            results: Default::default(),
            reference: None,
            build_err: Some("the single-threaded run panicked".into()),
        },
    }
}

fn baseline_inner(w: &Workload) -> Baseline {
    let mut b = Baseline {
        image: vec![],
        stats: (0, 0),
        results: Default::default(),
        reference: None,
        build_err: None,
    };
    match pma::build(&w.spec) {
        Err(e) => b.build_err = Some(e),
        Ok(p) => {
            b.image = p.serialize();
            b.stats = p.stats();
            b.reference = Some(p.clone_box());
            for th in &w.threads {
                for op in th {
                    let lanes: Vec<&Lane> = match op {
                        Op::Search(l) => vec![l],
                        Op::Multi { lanes, .. } => lanes.iter().collect(),
                        _ => vec![],
                    };
                    for l in lanes {
                        // the single-threaded result of the SAME entry point: a sequential
                        // difference between slice and byte-iterator searches is C12's business
                        b.results.entry((l.method, l.hay, l.via)).or_insert_with(|| match l.via {
                            Via::Slice => pma::search(&*p, l.method, &w.hays[l.hay]),
                            Via::Iter => p.open_iter(l.method, Box::new(w.hays[l.hay].clone().into_iter())).collect(),
                        });
                    }
                }
            }
        }
    }
    b
}

fn run_op(
    op: &Op,
    p: &Arc<Box<dyn DynPma>>,
    w: &Workload,
    hays: &[Arc<[u8]>],
    base: &Baseline,
    t: usize,
    i: usize,
) {
    match op {
        Op::Search(l) => {
            let want = &base.results[&(l.method, l.hay, l.via)];
            set_act(Act::Search(l.method, !want.is_empty()));
            let got: Vec<Mt> = open_lane(&***p, hays, l).collect();
            set_act(Act::Idle);
            if &got != want {
                fail(
                    "search-differs",
                    format!("thread {t} op {i} {:?} via {:?} on hay {}: concurrent result {:?}, single-threaded result {:?}", l.method, l.via, l.hay, got, want),
                );
            }
        }
        Op::Multi { lanes, order } => {
            TR.with(|t| t.borrow_mut().c.p_multi_iter_ops += 1);
            let any = lanes.iter().any(|l| !base.results[&(l.method, l.hay, l.via)].is_empty());
            set_act(Act::Search(lanes[0].method, any));
            let mut its: Vec<Option<pma::MatchIter>> =
                lanes.iter().map(|l| Some(open_lane(&***p, hays, l))).collect();
            let mut got: Vec<Vec<Mt>> = vec![vec![]; lanes.len()];
            for &li in order {
                let li = li as usize % lanes.len();
                if let Some(it) = its[li].as_mut() {
                    match it.next() {
                        Some(m) => got[li].push(m),
                        None => its[li] = None,
                    }
                }
            }
            for li in 0..lanes.len() {
                if let Some(it) = its[li].as_mut() {
                    got[li].extend(it);
                }
            }
            set_act(Act::Idle);
            for (li, l) in lanes.iter().enumerate() {
                let want = &base.results[&(l.method, l.hay, l.via)];
                if &got[li] != want {
                    fail(
                        "search-differs",
                        format!("thread {t} op {i} lane {li} {:?} via {:?} on hay {} (interleaved iterators): result {:?}, single search gives {:?}", l.method, l.via, l.hay, got[li], want),
                    );
                }
            }
        }
        Op::Serialize => {
            set_act(Act::Other);
            yield_hook();
            let img = p.serialize();
            yield_hook();
            set_act(Act::Idle);
            if img != base.image {
                fail("image-changed", format!("thread {t} op {i}: serialize() of the shared automaton differs from the single-threaded image"));
            }
        }
        Op::CloneCompare => {
            set_act(Act::Other);
            yield_hook();
            let c = p.clone_box();
            yield_hook();
            let same = c.same(&***p) && c.serialize() == base.image;
            set_act(Act::Idle);
            if !same {
                fail("image-changed", format!("thread {t} op {i}: a clone of the shared automaton is not equal to it"));
            }
        }
        Op::Stats => {
            set_act(Act::Other);
            yield_hook();
            let s0 = p.stats();
            yield_hook();
            let s = p.stats();
            set_act(Act::Idle);
            // statistics of one automaton do not change under searches (nothing is said about a
            // clone or a restored automaton reporting the same numbers as the built one)
            if s != s0 {
                fail("image-changed", format!("thread {t} op {i}: statistics changed from {:?} to {:?} while other threads searched", s0, s));
            }
        }
        Op::BuildAgain | Op::BuildPermuted { .. } => {
            let ident: Vec<usize> = (0..w.spec.patterns.len()).collect();
            let (order, class) = match op {
                Op::BuildPermuted { order } => {
                    TR.with(|t| t.borrow_mut().c.p_permuted_builds += 1);
                    (order.clone(), "build-order-dependent")
                }
                _ => {
                    TR.with(|t| t.borrow_mut().c.p_rebuilds += 1);
                    (ident, "build-nondeterministic")
                }
            };
            set_act(Act::Build);
            let r = pma::build_ordered_feed(&w.spec, &order, yield_hook, ((t + i) % 4) as u8);
            set_act(Act::Idle);
            match r {
                Err(e) => fail(class, format!("thread {t} op {i}: build failed ({e}) although the single-threaded build succeeded")),
                Ok(q) => {
                    let img = q.serialize();
                    if img != base.image {
                        let at = img.iter().zip(&base.image).position(|(a, b)| a != b);
                        fail(class, format!("thread {t} op {i}: serialised bytes differ (lengths {} vs {}, first difference at {:?}); order {:?}", img.len(), base.image.len(), at, order));
                    }
                    if let Some(r) = &base.reference {
                        if !q.same(&**r) {
                            fail(class, format!("thread {t} op {i}: rebuilt automaton != automaton built before from the same input although the bytes agree"));
                        }
                    }
                }
            }
        }
    }
}

/// One execution under shuttle: fresh automaton, threads, joins, final checks.
fn scenario(w: &Arc<Workload>, base: &Arc<Baseline>) {
    TR.with(|t| t.borrow_mut().begin_execution());
    let p: Arc<Box<dyn DynPma>> = match pma::build(&w.spec) {
        Ok(p) => Arc::new(match w.provenance {
            1 => p.clone_box(),
            2 => p.roundtrip(&[]).0,
            _ => p,
        }),
        Err(e) => fail("build-nondeterministic", format!("build failed inside the execution: {e}")),
    };
    let before = p.clone_box();
    let hays: Arc<Vec<Arc<[u8]>>> = Arc::new(w.hays.iter().map(|h| Arc::from(&h[..])).collect());
    let mut joins = vec![];
    for t in 0..w.threads.len() {
        let (w, base, p, hays) = (w.clone(), base.clone(), p.clone(), hays.clone());
        joins.push(shuttle::thread::spawn(move || {
            for (i, op) in w.threads[t].iter().enumerate() {
                run_op(op, &p, &w, &hays, &base, t, i);
            }
        }));
    }
    for j in joins {
        if j.join().is_err() {
            // the failing task has recorded the violation (or the panic hook has)
            panic!("task failed");
        }
    }
    if p.serialize() != base.image {
        fail("image-changed", "after all threads joined, the shared automaton no longer serialises to the single-threaded image".into());
    }
    if !p.same(&*before) {
        fail("image-changed", "after all threads joined, the shared automaton differs from the clone taken before they started".into());
    }
    TR.with(|t| t.borrow_mut().end_execution());
}

pub struct ExploreResult {
    pub failure: Option<Failure>,
    pub counters: TCounters,
    pub executions: Vec<(u64, bool)>,
}

fn config() -> shuttle::Config {
    let mut c = shuttle::Config::new();
    c.failure_persistence = shuttle::FailurePersistence::None;
    c.max_steps = shuttle::MaxSteps::FailAfter(400_000);
    c.silence_warnings = true;
    c
}

fn take_trace() -> (Option<Failure>, TCounters, Vec<(u64, bool)>) {
    TR.with(|t| {
        let mut t = t.borrow_mut();
        t.in_shuttle = false;
        (
            t.failure.take(),
            std::mem::take(&mut t.c),
            std::mem::take(&mut t.done),
        )
    })
}

/// Explore `iterations` schedules of the workload with a seeded scheduler.
pub fn explore(w: &Workload, sched: Sched, sched_seed: u64, iterations: usize) -> ExploreResult {
    let base = Arc::new(baseline(w));
    if base.build_err.is_some() {
        return ExploreResult { failure: None, counters: TCounters::default(), executions: vec![] };
    }
    let w = Arc::new(w.clone());
    let _ = take_trace();
    let f = {
        let (w, base) = (w.clone(), base.clone());
        move || scenario(&w, &base)
    };
    let r = std::panic::catch_unwind(std::panic::AssertUnwindSafe(|| match sched {
        Sched::Random => {
            shuttle::Runner::new(RandomScheduler::new_from_seed(sched_seed, iterations), config()).run(f);
        }
        Sched::Pct { depth } => {
            shuttle::Runner::new(PctScheduler::new_from_seed(sched_seed, depth, iterations), config()).run(f);
        }
        Sched::Urw => {
            shuttle::Runner::new(UrwRandomScheduler::new_from_seed(sched_seed, iterations), config()).run(f);
        }
    }));
    let (mut failure, counters, executions) = take_trace();
    if r.is_err() && failure.is_none() {
        failure = Some(Failure {
            class: "panic".into(),
            detail: "execution panicked without a recorded schedule".into(),
            schedule: String::new(),
        });
    }
    ExploreResult { failure, counters, executions }
}

/// Replay one recorded schedule.
pub fn replay_schedule(w: &Workload, schedule: &str) -> Option<Failure> {
    let base = Arc::new(baseline(w));
    if base.build_err.is_some() {
        return None;
    }
    let w = Arc::new(w.clone());
    let _ = take_trace();
    let f = {
        let (w, base) = (w.clone(), base.clone());
        move || scenario(&w, &base)
    };
    let sched = ReplayScheduler::new_from_encoded(schedule);
    let _ = std::panic::catch_unwind(std::panic::AssertUnwindSafe(|| {
        shuttle::Runner::new(sched, config()).run(f);
    }));
    take_trace().0
}

pub fn workload_hash(w: &Workload) -> u64 {
    let mut h = DefaultHasher::new();
    w.hash(&mut h);
    h.finish()
}

// ---------------------------------------------------------------------------------------
// generation

/// Spec only, with the full range of set sizes (including the huge ones): used by the
/// cross-process / permutation sampler, which runs no schedules and can afford them.
pub fn generate_big_spec(seed: u64) -> Spec {
    let mut rng = Rng::new(seed);
    let opts = GenOpts {
        variant: None,
        kinds: &[Kind::Standard, Kind::Standard, Kind::LeftmostLongest, Kind::LeftmostFirst],
        wide_max: 400,
        tiny: false,
        big_cp_of_8: 2,
    };
    let (mut spec, _) = gen::gen_spec(&mut rng, &opts);
    if spec.entry == Entry::Indices && matches!(spec.vtype, VType::U8 | VType::I8) && spec.patterns.len() > 127 {
        spec.vtype = VType::U32;
    }
    spec
}

pub fn generate(seed: u64) -> Workload {
    let mut rng = Rng::new(seed);
    let opts = GenOpts {
        variant: None,
        kinds: &[Kind::Standard, Kind::Standard, Kind::LeftmostLongest, Kind::LeftmostFirst],
        wide_max: 90,
        tiny: false, big_cp_of_8: 1 };
    let (mut spec, _) = gen::gen_spec(&mut rng, &opts);
    if spec.entry == Entry::Indices && matches!(spec.vtype, VType::U8 | VType::I8) && spec.patterns.len() > 127 {
        spec.vtype = VType::U32;
    }
    let nh = rng.range(1, 3);
    let mut hays = vec![];
    for _ in 0..nh {
        let target = *rng.pick(&[3usize, 8, 8, 16, 16, 32, 48]);
        let (mut h, _) = gen::gen_haystack(&mut rng, &spec, target);
        if spec.variant == Variant::Charwise && std::str::from_utf8(&h).is_err() {
            h = String::from_utf8_lossy(&h).into_owned().into_bytes();
        }
        hays.push(h);
    }
    let methods: &[Method] = if spec.kind == Kind::Standard { &STD_METHODS } else { &[Method::Leftmost] };
    let nt = *rng.pick(&[2usize, 2, 3, 3, 4]);
    let build_heavy = rng.chance(1, 4);
    let n = spec.patterns.len();
    let mut lane = |rng: &mut Rng| {
        let method = *rng.pick(methods);
        Lane {
            method,
            hay: rng.below(nh),
            via: if method != Method::Leftmost && rng.chance(1, 2) { Via::Iter } else { Via::Slice },
        }
    };
    let mut threads = vec![];
    for _ in 0..nt {
        let nops = rng.range(1, 3);
        let mut ops = vec![];
        for _ in 0..nops {
            let r = rng.below(100);
            let op = if build_heavy && r < 45 || r < 8 {
                if spec.kind != Kind::LeftmostFirst && n > 1 && rng.chance(2, 3) {
                    let mut order: Vec<usize> = (0..n).collect();
                    rng.shuffle(&mut order);
                    if rng.chance(1, 4) {
                        order.reverse();
                    }
                    Op::BuildPermuted { order }
                } else {
                    Op::BuildAgain
                }
            } else if r < 60 {
                Op::Search(lane(&mut rng))
            } else if r < 80 {
                let nl = rng.range(2, 3);
                let lanes: Vec<Lane> = (0..nl).map(|_| lane(&mut rng)).collect();
                let order: Vec<u8> = (0..rng.range(2, 12)).map(|_| rng.below(nl) as u8).collect();
                Op::Multi { lanes, order }
            } else if r < 88 {
                Op::Serialize
            } else if r < 94 {
                Op::CloneCompare
            } else {
                Op::Stats
            };
            ops.push(op);
        }
        threads.push(ops);
    }
    let provenance = *rng.pick(&[0u8, 0, 0, 1, 2]);
    Workload { spec, hays, threads, provenance }
}

// ---------------------------------------------------------------------------------------
// minimisation: shrink the workload, re-exploring with the same scheduler seed and budget

pub fn minimise(
    w: &Workload,
    original: &Failure,
    sched: Sched,
    sched_seed: u64,
    iterations: usize,
) -> (Workload, Failure) {
    let class = original.class.as_str();
    let test = |c: &Workload| -> Option<Failure> {
        if c.threads.is_empty() || c.spec.patterns.is_empty() {
            return None;
        }
        explore(c, sched, sched_seed, iterations).failure.filter(|f| f.class == class)
    };
    let mut cur = w.clone();
    // A failure that depends on something outside the simulation (real time, other OS threads)
    // may not come back on re-exploration: then the original stays as it is.
    let Some(mut cur_f) = test(&cur) else {
        return (w.clone(), original.clone());
    };
    for _round in 0..3 {
        let before = workload_hash(&cur);
        // drop whole threads
        let mut t = 0;
        while t < cur.threads.len() {
            let mut c = cur.clone();
            c.threads.remove(t);
            if let Some(f) = test(&c) {
                cur = c;
                cur_f = f;
            } else {
                t += 1;
            }
        }
        // drop operations
        for t in 0..cur.threads.len() {
            let mut i = 0;
            while i < cur.threads[t].len() {
                let mut c = cur.clone();
                c.threads[t].remove(i);
                if let Some(f) = test(&c) {
                    cur = c;
                    cur_f = f;
                } else {
                    i += 1;
                }
            }
        }
        // drop patterns (only when no permutation refers to indices)
        if !cur.threads.iter().flatten().any(|o| matches!(o, Op::BuildPermuted { .. })) {
            let mut i = 0;
            while i < cur.spec.patterns.len() && cur.spec.patterns.len() > 1 {
                let mut c = cur.clone();
                c.spec.patterns.remove(i);
                c.spec.values.remove(i);
                if let Some(f) = test(&c) {
                    cur = c;
                    cur_f = f;
                } else {
                    i += 1;
                }
            }
        } else {
            // remove the pattern with the largest index together with its slot in every order
            loop {
                let n = cur.spec.patterns.len();
                if n <= 2 {
                    break;
                }
                let mut c = cur.clone();
                c.spec.patterns.pop();
                c.spec.values.pop();
                for th in c.threads.iter_mut() {
                    for op in th.iter_mut() {
                        if let Op::BuildPermuted { order } = op {
                            order.retain(|&x| x != n - 1);
                        }
                    }
                }
                if let Some(f) = test(&c) {
                    cur = c;
                    cur_f = f;
                } else {
                    break;
                }
            }
        }
        // shorten haystacks from the end (character-wise when UTF-8)
        for h in 0..cur.hays.len() {
            loop {
                let hay = &cur.hays[h];
                if hay.is_empty() {
                    break;
                }
                let b = gen::boundaries(
                    if std::str::from_utf8(hay).is_ok() { Variant::Charwise } else { Variant::Bytewise },
                    hay,
                );
                let cut = b[b.len() - 2];
                let mut c = cur.clone();
                c.hays[h].truncate(cut);
                if let Some(f) = test(&c) {
                    cur = c;
                    cur_f = f;
                } else {
                    break;
                }
            }
        }
        if workload_hash(&cur) == before {
            break;
        }
    }
    (cur, cur_f)
}

// ---------------------------------------------------------------------------------------
// lock-step (C12): a producer that waits for the consumer's acknowledgement of each match
// before sending the bytes after it; a search that reads ahead dead-locks.

#[derive(Clone, Debug, PartialEq, Eq, Hash, Serialize, Deserialize)]
pub struct Lockstep {
    pub spec: Spec,
    pub content: Vec<u8>,
    pub method: Method,
    /// burst sizes the producer uses between two synchronisation points
    pub bursts: Vec<usize>,
    /// 0 = built, 1 = clone, 2 = restored from serialised bytes
    #[serde(default)]
    pub provenance: u8,
}

/// Record which thread passed a synchronisation point (for the interleaving measure only).
fn trace_point() {
    let id = me();
    TR.with(|t| {
        let mut t = t.borrow_mut();
        t.c.steps += 1;
        id.hash(&mut t.h);
        if t.last != id && t.last != usize::MAX {
            t.c.switches += 1;
        }
        t.last = id;
    });
}

struct RxSource(shuttle::sync::mpsc::Receiver<u8>);

impl Iterator for RxSource {
    type Item = u8;
    fn next(&mut self) -> Option<u8> {
        trace_point();
        self.0.recv().ok()
    }
}

fn lockstep_scenario(ls: &Arc<Lockstep>, want: &Arc<Vec<Mt>>) {
    TR.with(|t| t.borrow_mut().begin_execution());
    let p: Arc<Box<dyn DynPma>> = match pma::build(&ls.spec) {
        Ok(p) => Arc::new(match ls.provenance {
            1 => p.clone_box(),
            2 => p.roundtrip(&[]).0,
            _ => p,
        }),
        Err(e) => fail("harness", format!("harness: lock-step build failed: {e}")),
    };
    let (tx, rx) = shuttle::sync::mpsc::channel::<u8>();
    let (ack_tx, ack_rx) = shuttle::sync::mpsc::channel::<usize>();
    let producer = {
        let (ls, want) = (ls.clone(), want.clone());
        shuttle::thread::spawn(move || {
            let mut sent = 0usize;
            let mut bi = 0usize;
            let mut k = 0usize;
            while k < want.len() {
                let e = want[k].e;
                // deliver up to the end of the next expected match, in bursts
                while sent < e {
                    let b = ls.bursts.get(bi).copied().unwrap_or(1).max(1);
                    bi += 1;
                    let upto = (sent + b).min(e);
                    for &byte in &ls.content[sent..upto] {
                        trace_point();
                        if tx.send(byte).is_err() {
                            return;
                        }
                    }
                    sent = upto;
                    shuttle::thread::sleep(Duration::from_nanos(0));
                }
                // wait until the consumer has acknowledged every match ending here
                while k < want.len() && want[k].e == e {
                    trace_point();
                    match ack_rx.recv() {
                        Ok(i) if i == k => k += 1,
                        Ok(_) | Err(_) => return,
                    }
                }
            }
            for &byte in &ls.content[sent..] {
                if tx.send(byte).is_err() {
                    return;
                }
            }
            // dropping tx ends the stream
        })
    };
    let consumer = {
        let (ls, want, p) = (ls.clone(), want.clone(), p.clone());
        shuttle::thread::spawn(move || {
            let mut got = 0usize;
            let it = p.open_iter(ls.method, Box::new(RxSource(rx)));
            for m in it {
                if got >= want.len() || m != want[got] {
                    fail("same-matches", format!("lock-step consumer: match #{got} is {:?}, slice search gives {:?}", m, want.get(got)));
                }
                let _ = ack_tx.send(got);
                got += 1;
                TR.with(|t| t.borrow_mut().nontrivial = true);
            }
            if got != want.len() {
                fail("same-matches", format!("lock-step consumer: {got} matches, slice search gives {}", want.len()));
            }
        })
    };
    let a = producer.join();
    let b = consumer.join();
    if a.is_err() || b.is_err() {
        panic!("task failed");
    }
    TR.with(|t| {
        let mut t = t.borrow_mut();
        t.any_overlap = true;
        t.end_execution()
    });
}

pub fn lockstep_expected(ls: &Lockstep) -> Option<Vec<Mt>> {
    std::panic::catch_unwind(std::panic::AssertUnwindSafe(|| {
        pma::build(&ls.spec).ok().map(|p| pma::search(&*p, ls.method, &ls.content))
    }))
    .unwrap_or(None)
}

pub fn lockstep_explore(ls: &Lockstep, sched: Sched, sched_seed: u64, iterations: usize) -> ExploreResult {
    let Some(want) = lockstep_expected(ls) else {
        return ExploreResult { failure: None, counters: TCounters::default(), executions: vec![] };
    };
    let (ls, want) = (Arc::new(ls.clone()), Arc::new(want));
    let _ = take_trace();
    let f = {
        let (ls, want) = (ls.clone(), want.clone());
        move || lockstep_scenario(&ls, &want)
    };
    let r = std::panic::catch_unwind(std::panic::AssertUnwindSafe(|| match sched {
        Sched::Random => {
            shuttle::Runner::new(RandomScheduler::new_from_seed(sched_seed, iterations), config()).run(f);
        }
        Sched::Pct { depth } => {
            shuttle::Runner::new(PctScheduler::new_from_seed(sched_seed, depth, iterations), config()).run(f);
        }
        Sched::Urw => {
            shuttle::Runner::new(UrwRandomScheduler::new_from_seed(sched_seed, iterations), config()).run(f);
        }
    }));
    let (mut failure, counters, executions) = take_trace();
    if r.is_err() && failure.is_none() {
        failure = Some(Failure { class: "panic".into(), detail: "execution panicked without a recorded schedule".into(), schedule: String::new() });
    }
    if let Some(f) = failure.as_mut() {
        if f.class == "deadlock" {
            f.class = "lockstep-deadlock".into();
            f.detail = format!("the consumer waits for more bytes while the producer waits for the acknowledgement of a match the slice search reports: the byte-iterator search either read past the end of that match before returning it or does not return it ({})", f.detail);
        }
    }
    ExploreResult { failure, counters, executions }
}

pub fn lockstep_replay(ls: &Lockstep, schedule: &str) -> Option<Failure> {
    let want = lockstep_expected(ls)?;
    let (ls, want) = (Arc::new(ls.clone()), Arc::new(want));
    let _ = take_trace();
    let f = move || lockstep_scenario(&ls, &want);
    let sched = ReplayScheduler::new_from_encoded(schedule);
    let _ = std::panic::catch_unwind(std::panic::AssertUnwindSafe(|| {
        shuttle::Runner::new(sched, config()).run(f);
    }));
    let mut f = take_trace().0;
    if let Some(f) = f.as_mut() {
        if f.class == "deadlock" {
            f.class = "lockstep-deadlock".into();
        }
    }
    f
}

pub fn lockstep_generate(seed: u64) -> Lockstep {
    let mut rng = Rng::new(seed);
    let opts = GenOpts { variant: None, kinds: &[Kind::Standard], wide_max: 60, tiny: false, big_cp_of_8: 1 };
    let (spec, _) = gen::gen_spec(&mut rng, &opts);
    let target = *rng.pick(&[4usize, 8, 16, 24, 40]);
    let (mut content, _) = gen::gen_haystack(&mut rng, &spec, target);
    if spec.variant == Variant::Charwise && std::str::from_utf8(&content).is_err() {
        content = String::from_utf8_lossy(&content).into_owned().into_bytes();
    }
    // fault: truncation at an arbitrary (legal) point
    if rng.chance(1, 3) {
        let b = gen::boundaries(spec.variant, &content);
        let cut = *rng.pick(&b);
        content.truncate(cut);
    }
    let bursts = (0..rng.range(0, 12)).map(|_| rng.range(1, 6)).collect();
    let provenance = *rng.pick(&[0u8, 0, 1, 2]);
    Lockstep { spec, content, method: *rng.pick(&STD_METHODS), bursts, provenance }
}

pub fn lockstep_hash(l: &Lockstep) -> u64 {
    let mut h = DefaultHasher::new();
    l.hash(&mut h);
    h.finish()
}

pub fn lockstep_minimise(ls: &Lockstep, original: &Failure, sched: Sched, seed: u64, iterations: usize) -> (Lockstep, Failure) {
    let class = original.class.as_str();
    let test = |c: &Lockstep| lockstep_explore(c, sched, seed, iterations).failure.filter(|f| f.class == class);
    let mut cur = ls.clone();
    let Some(mut cur_f) = test(&cur) else {
        return (ls.clone(), original.clone());
    };
    loop {
        let before = lockstep_hash(&cur);
        let mut i = 0;
        while i < cur.spec.patterns.len() && cur.spec.patterns.len() > 1 {
            let mut c = cur.clone();
            c.spec.patterns.remove(i);
            c.spec.values.remove(i);
            if let Some(f) = test(&c) { cur = c; cur_f = f; } else { i += 1; }
        }
        loop {
            if cur.content.is_empty() { break; }
            let b = gen::boundaries(
                if std::str::from_utf8(&cur.content).is_ok() { Variant::Charwise } else { Variant::Bytewise },
                &cur.content,
            );
            let mut c = cur.clone();
            c.content.truncate(b[b.len() - 2]);
            if let Some(f) = test(&c) { cur = c; cur_f = f; } else { break; }
        }
        if !cur.bursts.is_empty() {
            let mut c = cur.clone();
            c.bursts.clear();
            if let Some(f) = test(&c) { cur = c; cur_f = f; }
        }
        if lockstep_hash(&cur) == before { break; }
    }
    (cur, cur_f)
}
