//! Fan a batch of seeded runs out over worker threads. Run `k` always uses
//! `mix(seed, engine, k)`, whatever the number of workers.

use std::sync::atomic::{AtomicBool, AtomicU64, Ordering};
use std::sync::Mutex;

thread_local! {
    /// the watchdog slot of this worker thread (set by `run_batch`)
    static MY_BEAT: std::cell::Cell<Option<(usize, usize)>> = const { std::cell::Cell::new(None) };
}
static BEATS: [AtomicU64; 256] = [const { AtomicU64::new(0) }; 256];
static BATCH_T0_MS: AtomicU64 = AtomicU64::new(0);

fn now_ms() -> u64 {
    std::time::SystemTime::now().duration_since(std::time::UNIX_EPOCH).map(|d| d.as_millis() as u64).unwrap_or(0)
}

/// A run that consists of many sub-runs (a sweep, a fault enumeration) tells the watchdog that
/// it is alive after each of them. Reads the wall clock for the watchdog only.
pub fn heartbeat() {
    MY_BEAT.with(|m| {
        if let Some((w, _)) = m.get() {
            BEATS[w % 256].store(now_ms().saturating_sub(BATCH_T0_MS.load(Ordering::Relaxed)), Ordering::Relaxed);
        }
    });
}

pub struct Batch {
    pub seed: u64,
    pub engine: u64,
    pub runs: u64,
    pub workers: usize,
}

/// `work(k, run_seed, &mut local)`; returns `true` to request the batch to stop (violation).
pub fn run_batch<L: Send + Default>(
    b: &Batch,
    work: impl Fn(u64, u64, &mut L) -> bool + Sync,
) -> Vec<L> {
    let next = AtomicU64::new(0);
    let stop = AtomicBool::new(false);
    let done = AtomicBool::new(false);
    let locals: Mutex<Vec<L>> = Mutex::new(vec![]);
    // Watchdog: a run that does not come back (a library call that loops) would otherwise block
    // the batch until the driver's time-out. The wall clock is read here only; it never reaches
    // a run. Slot w holds (run index + 1, start in ms since batch start) of worker w.
    let nworkers = b.workers.max(1);
    let slots: Vec<AtomicU64> = (0..nworkers).map(|_| AtomicU64::new(0)).collect();
    BATCH_T0_MS.store(now_ms(), Ordering::Relaxed);
    let limit_ms: u64 = std::env::var("DSIM_RUN_LIMIT_S").ok().and_then(|s| s.parse().ok()).unwrap_or(180) * 1000;
    std::thread::scope(|s| {
        s.spawn(|| {
            while !done.load(Ordering::Relaxed) {
                std::thread::sleep(std::time::Duration::from_millis(250));
                let now = now_ms().saturating_sub(BATCH_T0_MS.load(Ordering::Relaxed));
                for (w, k1) in slots.iter().enumerate() {
                    let k1 = k1.load(Ordering::Relaxed);
                    let st = BEATS[w % 256].load(Ordering::Relaxed);
                    if k1 != 0 && now.saturating_sub(st) > limit_ms {
                        let k = k1 - 1;
                        eprintln!(
                            "INCONCLUSIVE: run {k} (run seed {}) of engine {} on worker {w} has not returned after {} s; a library call seems not to terminate",
                            crate::rng::mix(b.seed, b.engine, k), b.engine, limit_ms / 1000
                        );
                        println!("HARNESS-ERROR: INCONCLUSIVE: a run did not return within {} s (engine {}, run {k})", limit_ms / 1000, b.engine);
                        std::process::exit(2);
                    }
                }
            }
        });
        let hs: Vec<_> = (0..nworkers)
            .map(|w| {
                let (slots, next, stop, locals, work) = (&slots, &next, &stop, &locals, &work);
                s.spawn(move || {
                    MY_BEAT.with(|m| m.set(Some((w, 0))));
                    let mut local = L::default();
                    loop {
                        if stop.load(Ordering::Relaxed) {
                            break;
                        }
                        let k = next.fetch_add(1, Ordering::Relaxed);
                        if k >= b.runs {
                            break;
                        }
                        let rs = crate::rng::mix(b.seed, b.engine, k);
                        heartbeat();
                        slots[w].store(k + 1, Ordering::Relaxed);
                        let r = work(k, rs, &mut local);
                        slots[w].store(0, Ordering::Relaxed);
                        if r {
                            stop.store(true, Ordering::Relaxed);
                        }
                    }
                    locals.lock().unwrap().push(local);
                })
            })
            .collect();
        let mut died = 0;
        for h in hs {
            if h.join().is_err() {
                died += 1;
            }
        }
        done.store(true, Ordering::Relaxed);
        if died > 0 {
            // a worker panicked outside the per-run catch (generator or accounting code of the
            // harness): whatever the batch reports would be based on fewer runs than claimed
            harness_error(&format!("{died} worker thread(s) of engine {} panicked in harness code; run with --loud to see where", b.engine));
        }
    });
    locals.into_inner().unwrap()
}

pub fn arg<'a>(args: &'a [String], name: &str) -> Option<&'a str> {
    args.iter()
        .position(|a| a == name)
        .and_then(|i| args.get(i + 1))
        .map(|s| s.as_str())
}

pub fn arg_u64(args: &[String], name: &str, default: u64) -> u64 {
    arg(args, name)
        .map(|s| s.parse().unwrap_or_else(|_| harness_error(&format!("bad value for {name}: {s}"))))
        .unwrap_or(default)
}

pub fn has(args: &[String], name: &str) -> bool {
    args.iter().any(|a| a == name)
}

/// Exit code 2: a problem of the harness, never a verdict.
pub fn harness_error(msg: &str) -> ! {
    eprintln!("HARNESS-ERROR: {msg}");
    std::process::exit(2)
}
