#!/bin/bash
# Build the harness into /verif/.target/sim (what ./check does); prints only errors.
cd "$(dirname "$0")/../sim" && CARGO_NET_OFFLINE=true CARGO_TARGET_DIR="$(pwd)/../.target/sim" cargo build --release --offline 2>&1 | grep -A14 "^error" | head -60
