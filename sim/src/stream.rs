//! E1 — discrete-event simulation of byte streams arriving at live byte-iterator searches
//! (property C12). Single-threaded; the explicit scenario decides every delivery, close,
//! poll and cancel. The only stub is the byte source; builder and searches are daachorse.

use std::cell::RefCell;
use std::collections::hash_map::DefaultHasher;
use std::collections::VecDeque;
use std::hash::{Hash, Hasher};
use std::rc::Rc;

use serde::{Deserialize, Serialize};

use crate::gen::{self, GenOpts};
use crate::pma::{self, DynPma, Kind, Method, Mt, Spec, Variant, STD_METHODS};
use crate::rng::Rng;

#[derive(Clone, Copy, Debug, PartialEq, Eq, Hash, Serialize, Deserialize)]
pub enum Hint {
    /// `size_hint()` = `(0, None)`
    Opaque,
    /// `size_hint()` reports the bytes currently available (and the exact rest once closed)
    Truthful,
    /// a legal but inexact hint, like `filter` or `take_while` give: the lower bound is below what
    /// will come (half of the bytes currently available), the upper bound is what the stream can
    /// at most still deliver
    Loose,
}

#[derive(Clone, Debug, PartialEq, Eq, Hash, Serialize, Deserialize)]
pub struct HandleSpec {
    pub method: Method,
    pub stream: usize,
    pub hint: Hint,
}

#[derive(Clone, Copy, Debug, PartialEq, Eq, Hash, Serialize, Deserialize)]
pub enum Ev {
    /// make up to `k` more bytes of the stream available (`k == 0` means everything)
    Deliver { stream: usize, k: usize },
    /// end of stream at the current delivery point (char-wise: rounded up to the character)
    Close { stream: usize },
    Open { handle: usize },
    /// one `next()` call
    Poll { handle: usize },
    /// `next()` until `None`
    Drain { handle: usize },
    /// read the pull counter (the caller "inspecting the source" between polls)
    Inspect { handle: usize },
    /// cancel: drop the search iterator
    Drop { handle: usize },
}

impl Ev {
    fn is_producer(&self) -> bool {
        matches!(self, Ev::Deliver { .. } | Ev::Close { .. })
    }
}

#[derive(Clone, Debug, PartialEq, Eq, Hash, Serialize, Deserialize)]
pub struct Scenario {
    pub spec: Spec,
    pub streams: Vec<Vec<u8>>,
    pub handles: Vec<HandleSpec>,
    pub events: Vec<Ev>,
    /// where the searched automaton comes from: 0 = the builder, 1 = a clone of the built one,
    /// 2 = restored from the built one's serialised bytes
    #[serde(default)]
    pub provenance: u8,
    /// 0 = nothing extra; otherwise, at the end, every opened handle's final stream content is
    /// searched once more through both entry points, each consumed by `pre` calls of `next()`
    /// followed by `Iterator` method number `finish_style - 1` (see `pma::consume`), and the two
    /// must agree
    #[serde(default)]
    pub finish_style: u8,
}

#[derive(Clone, Debug, Serialize, Deserialize)]
pub struct Violation {
    pub class: String,
    pub detail: String,
}

#[derive(Clone, Debug, Default, Serialize, Deserialize)]
pub struct Counters {
    pub steps: u64,
    pub pulls: u64,
    pub matches: u64,
    pub blocked: u64,
    // faults that fired
    pub f_trickle: u64,
    pub f_truncate: u64,
    pub f_truncate_at_zero: u64,
    pub f_truncate_after_match: u64,
    pub f_truncate_inside_occurrence: u64,
    pub f_split_inside_char: u64,
    pub f_split_inside_occurrence: u64,
    pub f_cancel: u64,
    pub f_producer_ahead: u64,
    pub f_hint_truthful_nonzero: u64,
    // probes
    pub p_match_midstream: u64,
    pub p_interleaved_handles: u64,
    pub p_multi_block: u64,
    pub p_block_evicted: u64,
    pub p_same_end_multi: u64,
    pub p_multibyte_match: u64,
    pub p_inspect: u64,
    pub p_match_beyond_64k: u64,
    pub p_nine_or_more_blocks: u64,
}

impl Counters {
    pub fn add(&mut self, o: &Counters) {
        macro_rules! a { ($($f:ident),*) => { $( self.$f += o.$f; )* } }
        a!(
            steps, pulls, matches, blocked, f_trickle, f_truncate, f_truncate_at_zero,
            f_truncate_after_match, f_truncate_inside_occurrence, f_split_inside_char,
            f_split_inside_occurrence, f_cancel, f_producer_ahead, f_hint_truthful_nonzero,
            p_match_midstream, p_interleaved_handles, p_multi_block, p_block_evicted,
            p_same_end_multi, p_multibyte_match, p_inspect, p_match_beyond_64k, p_nine_or_more_blocks
        );
    }
}

#[derive(Clone, Debug)]
pub struct Outcome {
    pub violation: Option<Violation>,
    pub counters: Counters,
    /// hash of the ordered event log (pulls, deliveries, closes, poll results)
    pub trace_hash: u64,
    pub nontrivial: bool,
    pub build_error: Option<String>,
}

struct StreamState {
    content: Vec<u8>,
    delivered: usize,
    closed: bool,
}

struct World {
    variant: Variant,
    streams: Vec<StreamState>,
    queue: VecDeque<Ev>,
    pulls: Vec<usize>,
    c: Counters,
    h: DefaultHasher,
    /// delivery boundaries per stream (for the split probes)
    cuts: Vec<Vec<usize>>,
}

impl World {
    fn log<T: Hash>(&mut self, tag: u8, x: T) {
        tag.hash(&mut self.h);
        x.hash(&mut self.h);
        self.c.steps += 1;
    }

    fn apply_producer(&mut self, ev: Ev) {
        match ev {
            Ev::Deliver { stream, k } => {
                let Some(s) = self.streams.get_mut(stream) else { return };
                if s.closed {
                    return;
                }
                let left = s.content.len() - s.delivered;
                let n = if k == 0 { left } else { k.min(left) };
                if n == 0 {
                    return;
                }
                s.delivered += n;
                let d = s.delivered;
                if n == 1 {
                    self.c.f_trickle += 1;
                }
                if d < self.streams[stream].content.len() {
                    self.cuts[stream].push(d);
                }
                self.log(1, (stream, d));
            }
            Ev::Close { stream } => {
                let variant = self.variant;
                let Some(s) = self.streams.get_mut(stream) else { return };
                if s.closed {
                    return;
                }
                if variant == Variant::Charwise {
                    // a truncated character is outside the contract of the unsafe entry points
                    while s.delivered < s.content.len() && (s.content[s.delivered] & 0xC0) == 0x80 {
                        s.delivered += 1;
                    }
                }
                s.closed = true;
                let d = s.delivered;
                self.log(2, (stream, d));
            }
            _ => unreachable!(),
        }
    }

    /// The consumer of `stream` is blocked: run producer events (for any stream) in scenario
    /// order until this stream has a byte or is closed. Consumer events stay queued.
    fn block_on(&mut self, stream: usize, pos: usize) {
        self.c.blocked += 1;
        loop {
            {
                let s = &self.streams[stream];
                if pos < s.delivered || s.closed {
                    return;
                }
            }
            match self.queue.iter().position(|e| e.is_producer()) {
                Some(i) => {
                    let ev = self.queue.remove(i).unwrap();
                    self.apply_producer(ev);
                }
                None => {
                    // nothing scheduled any more: the rest arrives, then the stream ends
                    self.apply_producer(Ev::Deliver { stream, k: 0 });
                    self.apply_producer(Ev::Close { stream });
                }
            }
        }
    }
}

/// The stub: a forward-only, non-`Clone` cursor into a simulated stream.
struct SimSource {
    w: Rc<RefCell<World>>,
    handle: usize,
    stream: usize,
    pos: usize,
    hint: Hint,
}

impl Iterator for SimSource {
    type Item = u8;

    fn next(&mut self) -> Option<u8> {
        let mut w = self.w.borrow_mut();
        {
            let s = &w.streams[self.stream];
            if self.pos >= s.delivered && !s.closed {
                w.block_on(self.stream, self.pos);
            }
        }
        let s = &w.streams[self.stream];
        if self.pos < s.delivered {
            let b = s.content[self.pos];
            let (h, p) = (self.handle, self.pos);
            self.pos += 1;
            w.pulls[h] += 1;
            w.c.pulls += 1;
            w.log(3, (h, p));
            Some(b)
        } else {
            let h = self.handle;
            w.log(4, h);
            None
        }
    }

    fn size_hint(&self) -> (usize, Option<usize>) {
        match self.hint {
            Hint::Opaque => (0, None),
            Hint::Loose => {
                let w = self.w.borrow();
                let s = &w.streams[self.stream];
                let avail = s.delivered - self.pos.min(s.delivered);
                let most = if s.closed { avail } else { s.content.len() - self.pos.min(s.content.len()) };
                (avail / 2, Some(most))
            }
            Hint::Truthful => {
                let mut w = self.w.borrow_mut();
                let s = &w.streams[self.stream];
                let avail = s.delivered - self.pos.min(s.delivered);
                let closed = s.closed;
                if avail > 0 {
                    w.c.f_hint_truthful_nonzero += 1;
                }
                (avail, if closed { Some(avail) } else { None })
            }
        }
    }
}

/// Above this many pulled bytes the online prefix comparison is skipped (it is quadratic).
const ONLINE_L3_LIMIT: usize = 4096;

fn is_prefix(a: &[Mt], b: &[Mt]) -> bool {
    a.len() <= b.len() && a == &b[..a.len()]
}

struct HState<'a> {
    it: Option<pma::MatchIter<'a>>,
    opened: bool,
    finished: bool,
    dropped: bool,
    got: Vec<Mt>,
}

pub fn run(sc: &Scenario) -> Outcome {
    let mut out = Outcome {
        violation: None,
        counters: Counters::default(),
        trace_hash: 0,
        nontrivial: false,
        build_error: None,
    };
    assert!(sc.spec.kind == Kind::Standard, "harness: E1 uses standard-kind automata");
    // A build that fails or panics is not C12's business (C10): the run is counted, not judged.
    let built = std::panic::catch_unwind(std::panic::AssertUnwindSafe(|| {
        pma::build(&sc.spec).map(|p| match sc.provenance {
            1 => p.clone_box(),
            2 => p.roundtrip(&[]).0,
            _ => p,
        })
    }));
    let pma = match built {
        Ok(Ok(p)) => p,
        Ok(Err(e)) => {
            out.build_error = Some(e);
            return out;
        }
        Err(_) => {
            out.build_error = Some("construction panicked".into());
            return out;
        }
    };
    let world = Rc::new(RefCell::new(World {
        variant: sc.spec.variant,
        streams: sc
            .streams
            .iter()
            .map(|c| StreamState {
                content: c.clone(),
                delivered: 0,
                closed: false,
            })
            .collect(),
        queue: sc.events.iter().copied().collect(),
        pulls: vec![0; sc.handles.len()],
        c: Counters::default(),
        h: DefaultHasher::new(),
        cuts: vec![vec![]; sc.streams.len()],
    }));
    let v = exec(sc, &*pma, &world);
    let mut w = world.borrow_mut();
    // automaton-shape probes
    let (_, heap) = pma.stats();
    let image_len = pma.serialize().len();
    let _ = heap;
    match sc.spec.variant {
        Variant::Bytewise => {
            let blocks = (image_len / 12) / 256;
            if blocks >= 2 {
                w.c.p_multi_block += 1;
            }
            if blocks >= 9 {
                w.c.p_nine_or_more_blocks += 1;
            }
            if blocks > sc.spec.num_free_blocks as usize {
                w.c.p_block_evicted += 1;
            }
        }
        Variant::Charwise => {
            // block length = next_power_of_two(alphabet size); count distinct chars
            let mut cs = std::collections::BTreeSet::new();
            for p in &sc.spec.patterns {
                cs.extend(std::str::from_utf8(p).unwrap().chars());
            }
            let bl = cs.len().next_power_of_two().max(2);
            let blocks = (image_len / 16) / bl;
            if blocks >= 2 {
                w.c.p_multi_block += 1;
            }
            if blocks > sc.spec.num_free_blocks as usize {
                w.c.p_block_evicted += 1;
            }
        }
    }
    out.trace_hash = w.h.finish();
    out.nontrivial = w.c.p_match_midstream > 0 || w.c.f_truncate_inside_occurrence > 0;
    out.counters = w.c.clone();
    out.violation = v;
    out
}

fn exec<'a>(
    sc: &Scenario,
    pma: &'a dyn DynPma,
    world: &Rc<RefCell<World>>,
) -> Option<Violation> {
    let variant = sc.spec.variant;
    let mut hs: Vec<HState<'a>> = sc
        .handles
        .iter()
        .map(|_| HState {
            it: None,
            opened: false,
            finished: false,
            dropped: false,
            got: vec![],
        })
        .collect();
    let mut last_polled: Option<usize> = None;

    macro_rules! viol {
        ($class:expr, $($arg:tt)*) => {
            return Some(Violation { class: $class.to_string(), detail: format!($($arg)*) })
        };
    }

    loop {
        let ev = { world.borrow_mut().queue.pop_front() };
        let Some(ev) = ev else { break };
        match ev {
            Ev::Deliver { .. } | Ev::Close { .. } => world.borrow_mut().apply_producer(ev),
            Ev::Open { handle } => {
                let Some(hspec) = sc.handles.get(handle) else { continue };
                if hs[handle].opened || hspec.stream >= sc.streams.len() {
                    continue;
                }
                let src = SimSource {
                    w: world.clone(),
                    handle,
                    stream: hspec.stream,
                    pos: 0,
                    hint: hspec.hint,
                };
                hs[handle].it = Some(pma.open_iter(hspec.method, Box::new(src)));
                hs[handle].opened = true;
                world.borrow_mut().log(5, handle);
            }
            Ev::Inspect { handle } => {
                if handle >= hs.len() || !hs[handle].opened {
                    continue;
                }
                // a caller may ask the search iterator for its size hint at any time; that is a
                // question, not a pull
                if let Some(it) = hs[handle].it.as_ref() {
                    let before = world.borrow().pulls[handle];
                    let _ = it.size_hint();
                    let after = world.borrow().pulls[handle];
                    if after != before {
                        viol!("lazy", "handle {handle}: size_hint() of the search iterator pulled {} byte(s) from the source", after - before);
                    }
                }
                let mut w = world.borrow_mut();
                w.c.p_inspect += 1;
                let p = w.pulls[handle];
                w.log(6, (handle, p));
                // An iterator that has not been polled since its last result has no business
                // reading: in this single-threaded world that is true by construction; what is
                // checked is that the counter still equals the end of the last match.
                if let Some(m) = hs[handle].got.last() {
                    if !hs[handle].finished && p != m.e {
                        drop(w);
                        viol!("lazy", "handle {handle}: {p} bytes pulled while last returned match ends at {}", m.e);
                    }
                }
            }
            Ev::Drop { handle } => {
                if handle >= hs.len() || !hs[handle].opened || hs[handle].dropped {
                    continue;
                }
                if !hs[handle].finished {
                    world.borrow_mut().c.f_cancel += 1;
                }
                let before = world.borrow().pulls[handle];
                hs[handle].it = None;
                hs[handle].dropped = true;
                world.borrow_mut().log(7, handle);
                let after = world.borrow().pulls[handle];
                if after != before {
                    // the caller takes the source back when it drops the search: nothing may be
                    // taken from it behind the caller's back
                    viol!("lazy", "handle {handle}: dropping the search iterator pulled {} more byte(s) from the source", after - before);
                }
            }
            Ev::Poll { handle } | Ev::Drain { handle } => {
                if handle >= hs.len() || !hs[handle].opened || hs[handle].dropped {
                    continue;
                }
                let drain = matches!(ev, Ev::Drain { .. });
                if hs[handle].finished && !drain {
                    // polled again after the end: whatever the slice search of the same bytes
                    // answers to one more next() after its None, the byte-iterator search must
                    // answer too (both are None forever on this tree)
                    let hspec = &sc.handles[handle];
                    let r = hs[handle].it.as_mut().unwrap().next();
                    let fin: Vec<u8> = {
                        let w = world.borrow();
                        let s = &w.streams[hspec.stream];
                        let mut f = s.content[..s.delivered].to_vec();
                        // a search may end before its stream does (nothing can match any more):
                        // what has arrived so far may then stop inside a character
                        if variant == Variant::Charwise {
                            if let Err(e) = std::str::from_utf8(&f) {
                                f.truncate(e.valid_up_to());
                            }
                        }
                        f
                    };
                    let mut sl = pma.open_slice(hspec.method, pma::Hay::plain(&fin));
                    while sl.next().is_some() {}
                    // a finished search may still be asked for its size hint (collecting into a
                    // set does): whether that question can be answered must not depend on the
                    // entry point
                    let s_hint = std::panic::catch_unwind(std::panic::AssertUnwindSafe(|| sl.size_hint()));
                    let i_hint = std::panic::catch_unwind(std::panic::AssertUnwindSafe(|| hs[handle].it.as_ref().unwrap().size_hint()));
                    if s_hint.is_err() != i_hint.is_err() {
                        viol!(
                            "panic",
                            "handle {handle} ({:?}): size_hint() after the end {} on the slice search and {} on the byte-iterator search",
                            hspec.method,
                            if s_hint.is_err() { "panics" } else { "answers" },
                            if i_hint.is_err() { "panics" } else { "answers" }
                        );
                    }
                    let want = sl.next();
                    world.borrow_mut().log(10, (handle, r));
                    if r != want {
                        viol!("same-matches", "handle {handle} ({:?}): next() after the end returned {r:?}, the slice search returns {want:?} there", hspec.method);
                    }
                    continue;
                }
                loop {
                    if hs[handle].finished {
                        break;
                    }
                    if let Some(lp) = last_polled {
                        if lp != handle && !hs[lp].finished && !hs[lp].dropped {
                            world.borrow_mut().c.p_interleaved_handles += 1;
                        }
                    }
                    last_polled = Some(handle);
                    let r = hs[handle].it.as_mut().unwrap().next();
                    let hspec = &sc.handles[handle];
                    let mut w = world.borrow_mut();
                    let pulls = w.pulls[handle];
                    match r {
                        None => {
                            w.log(8, handle);
                            hs[handle].finished = true;
                        }
                        Some(m) => {
                            w.log(9, (handle, m));
                            w.c.matches += 1;
                            let (delivered, closed, total) = {
                                let s = &w.streams[hspec.stream];
                                (s.delivered, s.closed, s.content.len())
                            };
                            if !closed && delivered < total {
                                w.c.p_match_midstream += 1;
                            }
                            if delivered > pulls {
                                w.c.f_producer_ahead += 1;
                            }
                            if let Some(prev) = hs[handle].got.last() {
                                if prev.e == m.e {
                                    w.c.p_same_end_multi += 1;
                                }
                            }
                            hs[handle].got.push(m);
                            // L1: lazy — exactly `end` bytes pulled at the moment of return
                            if pulls != m.e {
                                drop(w);
                                viol!(
                                    "lazy",
                                    "handle {handle} ({:?}): match ({},{},{}) returned after {pulls} bytes pulled",
                                    hspec.method, m.s, m.e, m.v
                                );
                            }
                            // L4 (implied by L1 + construction of the source, kept explicit)
                            if m.e > delivered {
                                drop(w);
                                viol!("lazy", "handle {handle}: match end {} beyond delivered {delivered}", m.e);
                            }
                            // L3 online: what was returned so far is what the slice entry point
                            // returns for the bytes pulled so far, up to matches still pending at
                            // this very end position.
                            if m.s > m.e {
                                drop(w);
                                viol!("same-matches", "handle {handle}: match with start {} beyond its end {}", m.s, m.e);
                            }
                            if pulls <= ONLINE_L3_LIMIT {
                                let seen = w.streams[hspec.stream].content[..pulls].to_vec();
                                if seen[m.s..m.e].iter().any(|b| *b >= 0x80) {
                                    w.c.p_multibyte_match += 1;
                                }
                                drop(w);
                                if variant == Variant::Charwise && std::str::from_utf8(&seen).is_err() {
                                    viol!("same-matches", "handle {handle}: match end {} is not a character boundary", m.e);
                                }
                                let want = pma::search(pma, hspec.method, &seen);
                                let got = &hs[handle].got;
                                if !is_prefix(got, &want) || want[got.len()..].iter().any(|x| x.e != pulls) {
                                    viol!(
                                        "same-matches",
                                        "handle {handle} ({:?}): after {pulls} bytes iterator returned {:?}, slice search of the same bytes gives {:?}",
                                        hspec.method, got, want
                                    );
                                }
                            } else {
                                // long streams: the (quadratic) prefix comparison is done once, at the end
                                if pulls > 65_536 {
                                    w.c.p_match_beyond_64k += 1;
                                }
                            }
                        }
                    }
                    if !drain {
                        break;
                    }
                }
            }
        }
    }

    // End of the scenario: unfinished handles count as cancelled, open streams end where they are.
    {
        let mut w = world.borrow_mut();
        for s in 0..sc.streams.len() {
            w.apply_producer(Ev::Close { stream: s });
        }
    }
    let w = world.borrow();
    let mut cc = Counters::default();
    for (si, s) in w.streams.iter().enumerate() {
        let fin = s.delivered;
        let full_over = if fin < s.content.len() {
            cc.f_truncate += 1;
            if fin == 0 {
                cc.f_truncate_at_zero += 1;
            }
            Some(pma::search(pma, Method::Overlapping, &s.content))
        } else {
            None
        };
        if let Some(fo) = &full_over {
            if fo.iter().any(|m| m.s < fin && fin < m.e) {
                cc.f_truncate_inside_occurrence += 1;
            }
            if fo.iter().any(|m| m.e == fin) {
                cc.f_truncate_after_match += 1;
            }
        }
        if !w.cuts[si].is_empty() {
            let over = pma::search(pma, Method::Overlapping, &s.content);
            for &c in &w.cuts[si] {
                if c < s.content.len() && (s.content[c] & 0xC0) == 0x80 && std::str::from_utf8(&s.content).is_ok() {
                    cc.f_split_inside_char += 1;
                }
                if over.iter().any(|m| m.s < c && c < m.e) {
                    cc.f_split_inside_occurrence += 1;
                }
            }
        }
    }
    drop(w);
    world.borrow_mut().c.add(&cc);
    let w = world.borrow();
    for (h, hst) in hs.iter().enumerate() {
        if !hst.opened {
            continue;
        }
        let hspec = &sc.handles[h];
        let s = &w.streams[hspec.stream];
        let fin = &s.content[..s.delivered];
        let want = pma::search(pma, hspec.method, fin);
        if hst.finished {
            // L3: polled to exhaustion => exactly the slice result for the final content
            if hst.got != want {
                viol!(
                    "same-matches",
                    "handle {h} ({:?}): exhausted iterator returned {:?}, slice search of the {} final bytes gives {:?}",
                    hspec.method, hst.got, fin.len(), want
                );
            }
            // (an iterator may return None without having pulled everything, e.g. when the rest
            // is known to be too short for any pattern: "each byte once" means at most once, and
            // that holds by construction of the forward-only source)
        } else if !is_prefix(&hst.got, &want) {
            viol!(
                "same-matches",
                "handle {h} ({:?}): cancelled iterator returned {:?}, not a prefix of {:?}",
                hspec.method, hst.got, want
            );
        }
        // the slice entry point takes any `AsRef` container, also one that stores the bytes
        // inline and is moved together with the search iterator
        if let Some(inl) = pma::InlineHay::new(fin) {
            let wi: Vec<Mt> = pma.open_slice_inline(hspec.method, inl).collect();
            let ok = if hst.finished { hst.got == wi } else { is_prefix(&hst.got, &wi) };
            if !ok {
                viol!(
                    "same-matches",
                    "handle {h} ({:?}): iterator returned {:?}; slice search of the {} final bytes passed by value in an inline container gives {:?}",
                    hspec.method, hst.got, fin.len(), wi
                );
            }
        }
        // both entry points consumed through the same mix of next() and another Iterator method
        if sc.finish_style > 0 && h < 3 {
            let style = sc.finish_style - 1;
            let pre = (hst.got.len() + h) % 4;
            // the source: a vector's iterator (exact size hint) or the same behind `filter`
            // (lower bound 0, upper bound the length)
            let src: pma::ByteSrc = if (fin.len() + pre) % 2 == 0 { Box::new(fin.to_vec().into_iter()) } else { Box::new(fin.to_vec().into_iter().filter(|_| true)) };
            let a = pma.consume_iter(hspec.method, src, pre, style);
            // what taking the slice search's matches (`want`, collected with next()) in that way gives
            let model = pma::consume!(want.iter().copied(), |m: Mt| m, pre, style);
            if a != model {
                viol!(
                    "same-matches",
                    "handle {h} ({:?}): {pre} next() call(s) then {} give {:?} on the byte-iterator search; the matches of the slice search of the same {} bytes taken the same way are {:?}",
                    hspec.method, pma::style_name(style), a, fin.len(), model
                );
            }
            let inline = (hst.got.len() + fin.len()) % 2 == 1;
            let b = pma.consume_slice(hspec.method, pma::Hay::plain(fin), inline, pre, style);
            if a != b {
                viol!(
                    "same-matches",
                    "handle {h} ({:?}): {pre} next() call(s) then {} give {:?} on the byte-iterator search and {:?} on the slice search of the same {} bytes{}",
                    hspec.method, pma::style_name(style), a, b, fin.len(), if inline && fin.len() <= pma::INLINE_MAX { " (passed by value in an inline container)" } else { "" }
                );
            }
        }
    }
    None
}

// ---------------------------------------------------------------------------------------
// generation

pub fn generate(seed: u64) -> Scenario {
    let mut rng = Rng::new(seed);
    let opts = GenOpts {
        variant: None,
        kinds: &[Kind::Standard],
        wide_max: 400,
        tiny: false, big_cp_of_8: 3 };
    let (spec, _class) = gen::gen_spec(&mut rng, &opts);
    if rng.chance(1, 160) {
        return generate_long(&mut rng, spec);
    }
    let nstreams = *rng.pick(&[1usize, 1, 1, 2, 3]);
    let mut streams = vec![];
    for _ in 0..nstreams {
        // mostly short; now and then past the sizes at which implementations switch strategy
        let target = *rng.pick(&[0usize, 1, 6, 12, 24, 24, 48, 48, 96, 200, 300, 1100]);
        let (mut h, _) = gen::gen_haystack(&mut rng, &spec, target);
        if target == 0 {
            h.clear();
        }
        if spec.variant == Variant::Charwise && std::str::from_utf8(&h).is_err() {
            h = String::from_utf8_lossy(&h).into_owned().into_bytes();
        }
        if rng.chance(1, 40) {
            // a length that is exactly a multiple of a buffer size (windows, blocks, pages)
            let exact = *rng.pick(&[256usize, 1024, 4096, 4096, 8192, 12288]);
            h = exact_len(&mut rng, &spec, h, exact);
        }
        streams.push(h);
    }
    let nh = *rng.pick(&[1usize, 1, 2, 2, 3, 4]);
    let handles: Vec<HandleSpec> = (0..nh)
        .map(|_| HandleSpec {
            method: *rng.pick(&STD_METHODS),
            stream: rng.below(nstreams),
            hint: *rng.pick(&[Hint::Truthful, Hint::Truthful, Hint::Opaque, Hint::Opaque, Hint::Loose]),
        })
        .collect();

    // run shape
    let trunc_bias = rng.chance(1, 2); // truncation-focused run
    let trickle_bias = rng.chance(1, 3);
    let ahead_bias = rng.chance(1, 3); // producer far ahead
    let total: usize = streams.iter().map(|s| s.len()).sum::<usize>() + 4;
    let steps = total * rng.range(1, 3) + rng.range(2, 20);
    let mut events = vec![];
    let mut opened = vec![false; nh];
    // open at least one handle first (others may open mid-stream)
    let first = rng.below(nh);
    events.push(Ev::Open { handle: first });
    opened[first] = true;
    if ahead_bias {
        for s in 0..nstreams {
            events.push(Ev::Deliver { stream: s, k: rng.range(4, 64) });
        }
    }
    for _ in 0..steps {
        let r = rng.below(100);
        if r < 34 {
            let k = if trickle_bias || rng.chance(1, 2) {
                1
            } else if rng.chance(1, 10) {
                0
            } else {
                rng.range(2, 9)
            };
            events.push(Ev::Deliver { stream: rng.below(nstreams), k });
        } else if r < 78 {
            let h = rng.below(nh);
            if !opened[h] {
                events.push(Ev::Open { handle: h });
                opened[h] = true;
            }
            for _ in 0..rng.range(1, 3) {
                events.push(Ev::Poll { handle: h });
            }
        } else if r < 86 {
            events.push(Ev::Inspect { handle: rng.below(nh) });
        } else if r < 88 {
            if trunc_bias || rng.chance(1, 4) {
                events.push(Ev::Close { stream: rng.below(nstreams) });
            }
        } else if r < 90 {
            events.push(Ev::Drop { handle: rng.below(nh) });
        } else if r < 93 {
            events.push(Ev::Drain { handle: rng.below(nh) });
        } else {
            let h = rng.below(nh);
            if !opened[h] {
                events.push(Ev::Open { handle: h });
                opened[h] = true;
            }
        }
    }
    // ending: truncate where we are, or let everything arrive
    for s in 0..nstreams {
        if !(trunc_bias && rng.chance(1, 2)) {
            events.push(Ev::Deliver { stream: s, k: 0 });
        }
        if rng.chance(1, 2) {
            events.push(Ev::Close { stream: s });
        }
    }
    let mut order: Vec<usize> = (0..nh).collect();
    rng.shuffle(&mut order);
    for h in order {
        if !opened[h] {
            events.push(Ev::Open { handle: h });
        }
        if rng.chance(5, 6) {
            events.push(Ev::Drain { handle: h });
        }
    }
    Scenario {
        spec,
        streams,
        handles,
        events,
        provenance: *rng.pick(&[0u8, 0, 0, 1, 2]),
        finish_style: if rng.chance(1, 2) { 1 + rng.below(pma::N_STYLES as usize) as u8 } else { 0 },
    }
}

/// Repeat / trim `h` to exactly `n` bytes (keeping UTF-8 validity when it is UTF-8) and make sure
/// an occurrence ends in the last few bytes.
fn exact_len(rng: &mut Rng, spec: &Spec, h: Vec<u8>, n: usize) -> Vec<u8> {
    let utf8 = std::str::from_utf8(&h).is_ok() && spec.patterns.iter().all(|p| std::str::from_utf8(p).is_ok());
    let seed = if h.is_empty() { spec.patterns[0].clone() } else { h };
    let mut out = Vec::with_capacity(n + 8);
    while out.len() < n {
        out.extend_from_slice(&seed);
    }
    // cut at a character boundary at or below n, then pad with ASCII to n
    let mut cut = n;
    if utf8 {
        // `cut == out.len()` is a boundary already
        while cut > 0 && cut < out.len() && (out[cut] & 0xC0) == 0x80 {
            cut -= 1;
        }
    }
    out.truncate(cut);
    let p = spec.patterns[rng.below(spec.patterns.len())].clone();
    if p.len() + 2 <= out.len() && rng.chance(3, 4) {
        // plant an occurrence so that it ends exactly at the end (after padding)
        let pad = n - out.len();
        let mut at = out.len() - p.len();
        if utf8 {
            while at > 0 && (out[at] & 0xC0) == 0x80 {
                at -= 1;
            }
        }
        out.truncate(at);
        out.extend_from_slice(&p);
        while out.len() + pad < n {
            out.push(b'q');
        }
        while out.len() < n {
            out.insert(at, b'q');
        }
        out.truncate(n);
        if utf8 && std::str::from_utf8(&out).is_err() {
            out = String::from_utf8_lossy(&out).into_owned().into_bytes();
        }
    } else {
        while out.len() < n {
            out.push(b'q');
        }
    }
    out
}

/// A long stream (crosses 2^16 bytes, sometimes 2^17): positions that do not fit a narrow
/// counter, buffers that fill up. Delivered in large bursts, polled in bursts.
fn generate_long(rng: &mut Rng, spec: Spec) -> Scenario {
    let target = *rng.pick(&[66_000usize, 70_000, 131_500, 140_000]);
    // mostly non-matching filler with occurrences planted sparsely, so that the match list
    // stays short and some matches lie beyond the 2^16 / 2^17 boundaries
    let utf8 = spec.patterns.iter().all(|p| std::str::from_utf8(p).is_ok());
    let filler: &[u8] = if utf8 { "q試Z".as_bytes() } else { &[0x11, 0xee, b'Q'] };
    let mut content = Vec::with_capacity(target + 64);
    if rng.chance(1, 4) {
        // dense: the stream is one pattern repeated, i.e. tens of thousands of matches
        let p = spec.patterns.iter().min_by_key(|p| p.len()).unwrap().clone();
        while content.len() < target {
            content.extend_from_slice(&p);
        }
    }
    while content.len() < target {
        if rng.chance(1, 400) || (content.len() > 65_400 && content.len() < 65_700 && rng.chance(1, 6)) {
            let p = &spec.patterns[rng.below(spec.patterns.len())];
            content.extend_from_slice(p);
        } else if utf8 {
            let cs = ["q", "試", "Z", "\u{10fffe}"];
            content.extend_from_slice(cs[rng.below(if spec.variant == Variant::Charwise && cs.len() > 3 { 3 } else { 3 })].as_bytes());
        } else {
            content.push(filler[rng.below(filler.len())]);
        }
    }
    if spec.variant == Variant::Charwise && std::str::from_utf8(&content).is_err() {
        content = String::from_utf8_lossy(&content).into_owned().into_bytes();
    }
    if rng.chance(1, 3) {
        let n = if content.len() > 100_000 { 131_072 } else { 65_536 };
        content = exact_len(rng, &spec, content, n);
    }
    let nh = rng.range(1, 2);
    let handles: Vec<HandleSpec> = (0..nh)
        .map(|_| HandleSpec {
            method: *rng.pick(&STD_METHODS),
            stream: 0,
            hint: *rng.pick(&[Hint::Truthful, Hint::Truthful, Hint::Opaque, Hint::Opaque, Hint::Loose]),
        })
        .collect();
    let mut events = vec![];
    for h in 0..nh {
        events.push(Ev::Open { handle: h });
    }
    let mut sent = 0;
    while sent < content.len() {
        let k = *rng.pick(&[1usize, 255, 4096, 8192, 65_535, 65_536, 70_000]);
        events.push(Ev::Deliver { stream: 0, k });
        sent += k;
        for _ in 0..rng.range(0, 3) {
            events.push(Ev::Poll { handle: rng.below(nh) });
        }
        if rng.chance(1, 40) {
            events.push(Ev::Close { stream: 0 });
        }
    }
    events.push(Ev::Close { stream: 0 });
    for h in 0..nh {
        events.push(Ev::Drain { handle: h });
    }
    let provenance = *rng.pick(&[0u8, 0, 1, 2]);
    let finish_style = if rng.chance(1, 3) { 1 + rng.below(pma::N_STYLES as usize) as u8 } else { 0 };
    Scenario { spec, streams: vec![content], handles, events, provenance, finish_style }
}

/// Thorough tier: for one sampled (spec, content), every truncation point (every byte, or
/// every character boundary) × every method × three canonical schedules.
pub fn sweep_scenarios(base: &Scenario) -> Vec<Scenario> {
    let mut out = vec![];
    let content = &base.streams[0];
    let cuts = gen::boundaries(base.spec.variant, content);
    for &cut in &cuts {
        for (mi, m) in STD_METHODS.iter().enumerate() {
            for sched in 0..3 {
                let hint = match (cut + mi + sched) % 3 { 0 => Hint::Truthful, 1 => Hint::Opaque, _ => Hint::Loose };
                let mut ev = vec![];
                match sched {
                    0 => {
                        // all bytes first
                        ev.push(Ev::Deliver { stream: 0, k: cut });
                        if cut == 0 {
                            // k == 0 means "everything": deliver nothing instead
                            ev.pop();
                        }
                        ev.push(Ev::Close { stream: 0 });
                        ev.push(Ev::Open { handle: 0 });
                        ev.push(Ev::Drain { handle: 0 });
                    }
                    1 => {
                        // one byte per poll
                        ev.push(Ev::Open { handle: 0 });
                        for _ in 0..cut {
                            ev.push(Ev::Deliver { stream: 0, k: 1 });
                            ev.push(Ev::Poll { handle: 0 });
                        }
                        ev.push(Ev::Close { stream: 0 });
                        ev.push(Ev::Drain { handle: 0 });
                    }
                    _ => {
                        // poll before any byte: the consumer blocks, the producer trickles
                        ev.push(Ev::Open { handle: 0 });
                        ev.push(Ev::Drain { handle: 0 });
                        for _ in 0..cut {
                            ev.push(Ev::Deliver { stream: 0, k: 1 });
                        }
                        ev.push(Ev::Close { stream: 0 });
                    }
                }
                out.push(Scenario {
                    spec: base.spec.clone(),
                    streams: vec![content.clone()],
                    handles: vec![HandleSpec { method: *m, stream: 0, hint }],
                    events: ev,
                    provenance: base.provenance,
                    finish_style: if (cut + mi) % 3 == 0 { 1 + ((cut + mi + sched) % pma::N_STYLES as usize) as u8 } else { 0 },
                });
            }
        }
    }
    out
}

/// Does one of the *slice* searches this scenario relies on as its reference panic by itself?
/// Then the defect is in code shared by both entry points (C01/C07 territory) and the run
/// cannot be judged for C12.
pub fn reference_panics(sc: &Scenario) -> bool {
    std::panic::catch_unwind(std::panic::AssertUnwindSafe(|| {
        let Ok(p) = pma::build(&sc.spec) else { return };
        for h in &sc.handles {
            if let Some(c) = sc.streams.get(h.stream) {
                // the whole content and a handful of prefixes (linear in the content; the online
                // checks only ever search prefixes of at most ONLINE_L3_LIMIT bytes)
                let b = gen::boundaries(sc.spec.variant, c);
                let step = (b.len() / 8).max(1);
                for cut in b.iter().step_by(step).chain(b.last()) {
                    if *cut <= ONLINE_L3_LIMIT || *cut == c.len() {
                        let _ = pma::search(&*p, h.method, &c[..*cut]);
                    }
                }
            }
        }
    }))
    .is_err()
}

pub fn scenario_hash(sc: &Scenario) -> u64 {
    let mut h = DefaultHasher::new();
    sc.hash(&mut h);
    h.finish()
}

// ---------------------------------------------------------------------------------------
// minimisation: delta debugging over the explicit scenario, same violation class required

thread_local! {
    /// wall-clock bound of the current minimisation (read by the minimiser only)
    static MIN_DEADLINE: std::cell::Cell<Option<std::time::Instant>> = const { std::cell::Cell::new(None) };
}

fn fails_same(sc: &Scenario, class: &str) -> bool {
    if MIN_DEADLINE.with(|d| d.get()).map(|d| std::time::Instant::now() > d).unwrap_or(false) {
        return false;
    }
    let r = std::panic::catch_unwind(std::panic::AssertUnwindSafe(|| run(sc)));
    match r {
        Ok(o) => o.violation.map(|v| v.class == class).unwrap_or(false),
        Err(_) => class == "panic",
    }
}

fn ddmin_vec<T: Clone>(items: &[T], mut test: impl FnMut(&[T]) -> bool) -> Vec<T> {
    let mut cur: Vec<T> = items.to_vec();
    let mut n = 2usize;
    while cur.len() >= 1 {
        if MIN_DEADLINE.with(|d| d.get()).map(|d| std::time::Instant::now() > d).unwrap_or(false) {
            break;
        }
        let chunk = (cur.len() + n - 1) / n;
        let mut reduced = false;
        let mut i = 0;
        while i < cur.len() {
            let mut cand = cur[..i].to_vec();
            cand.extend_from_slice(&cur[(i + chunk).min(cur.len())..]);
            if cand.len() < cur.len() && test(&cand) {
                cur = cand;
                n = n.saturating_sub(1).max(2);
                reduced = true;
            } else {
                i += chunk;
            }
        }
        if !reduced {
            if chunk <= 1 {
                break;
            }
            n = (n * 2).min(cur.len().max(2));
        }
    }
    cur
}

pub fn minimise(sc: &Scenario, class: &str) -> Scenario {
    // bounded: two minutes of wall clock; afterwards every candidate counts as "does not fail"
    MIN_DEADLINE.with(|d| d.set(Some(std::time::Instant::now() + std::time::Duration::from_secs(120))));
    let r = minimise_inner(sc, class);
    MIN_DEADLINE.with(|d| d.set(None));
    r
}

fn minimise_inner(sc: &Scenario, class: &str) -> Scenario {
    let mut cur = sc.clone();
    for _round in 0..4 {
        let before = scenario_hash(&cur);
        // events
        {
            let base = cur.clone();
            let ev = ddmin_vec(&base.events, |e| {
                let mut c = base.clone();
                c.events = e.to_vec();
                fails_same(&c, class)
            });
            cur.events = ev;
        }
        // handles not referenced by a Poll/Drain any more: neutralise by dropping their events
        // patterns (values stay parallel)
        {
            let base = cur.clone();
            let idx: Vec<usize> = (0..base.spec.patterns.len()).collect();
            let keep = ddmin_vec(&idx, |ix| {
                if ix.is_empty() {
                    return false;
                }
                let mut c = base.clone();
                c.spec.patterns = ix.iter().map(|&i| base.spec.patterns[i].clone()).collect();
                c.spec.values = ix.iter().map(|&i| base.spec.values[i]).collect();
                fails_same(&c, class)
            });
            cur.spec.patterns = keep.iter().map(|&i| base.spec.patterns[i].clone()).collect();
            cur.spec.values = keep.iter().map(|&i| base.spec.values[i]).collect();
        }
        // stream contents: remove units (bytes or characters)
        for si in 0..cur.streams.len() {
            let base = cur.clone();
            let b = gen::boundaries(
                if std::str::from_utf8(&base.streams[si]).is_ok() { Variant::Charwise } else { Variant::Bytewise },
                &base.streams[si],
            );
            let units: Vec<Vec<u8>> = b.windows(2).map(|w| base.streams[si][w[0]..w[1]].to_vec()).collect();
            let keep = ddmin_vec(&units, |us| {
                let mut c = base.clone();
                c.streams[si] = us.concat();
                fails_same(&c, class)
            });
            cur.streams[si] = keep.concat();
        }
        // knobs
        for nfb in [64u32, 16] {
            if cur.spec.num_free_blocks != nfb {
                let mut c = cur.clone();
                c.spec.num_free_blocks = nfb;
                if fails_same(&c, class) {
                    cur = c;
                    break;
                }
            }
        }
        if cur.provenance != 0 {
            let mut c = cur.clone();
            c.provenance = 0;
            if fails_same(&c, class) {
                cur = c;
            }
        }
        if cur.finish_style != 0 {
            let mut c = cur.clone();
            c.finish_style = 0;
            if fails_same(&c, class) {
                cur = c;
            }
        }
        for h in 0..cur.handles.len() {
            if cur.handles[h].hint == Hint::Truthful {
                let mut c = cur.clone();
                c.handles[h].hint = Hint::Opaque;
                if fails_same(&c, class) {
                    cur = c;
                }
            }
        }
        if scenario_hash(&cur) == before {
            break;
        }
    }
    cur
}
