//! E4 — the `daacfind` process with its libc read/write boundary under simulator control
//! (property C16). Scenario = argv + inputs + environment + explicit fault schedule; the
//! schedule is executed by the LD_PRELOAD shim (/verif/shim/iofault.c). The reference model
//! below is independent of daachorse (substring search, a dozen lines).

use std::collections::hash_map::DefaultHasher;
use std::hash::{Hash, Hasher};
use std::io::Write;
use std::path::{Path, PathBuf};
use std::process::{Command, Stdio};
use std::time::{Duration, Instant};

use serde::{Deserialize, Serialize};

use crate::rng::Rng;

pub const EINTR: i32 = 4;
pub const EIO: i32 = 5;
pub const EAGAIN: i32 = 11;
pub const ENOSPC: i32 = 28;
pub const EPIPE: i32 = 32;

#[derive(Clone, Copy, Debug, PartialEq, Eq, Hash, Serialize, Deserialize)]
pub enum Profile {
    Dev,
    Release,
}

#[derive(Clone, Copy, Debug, PartialEq, Eq, Hash, Serialize, Deserialize)]
pub enum Color {
    /// no `--color` argument (the documented default is `never`)
    Default,
    Never,
    Always,
    Auto,
}

#[derive(Clone, Copy, Debug, PartialEq, Eq, Hash, Serialize, Deserialize)]
pub enum Mode {
    FaultFree,
    /// short reads/writes and EINTR: legal behaviours of read(2)/write(2); full oracle
    Benign,
    /// one EIO / ENOSPC / EPIPE (plus benign faults): relaxed oracle
    Hard,
}

#[derive(Clone, Copy, Debug, PartialEq, Eq, Hash, Serialize, Deserialize)]
pub enum Act {
    Pass,
    Max(usize),
    Err(i32),
}

#[derive(Clone, Debug, PartialEq, Eq, Hash, Serialize, Deserialize)]
pub struct Sched {
    pub reads: Vec<Act>,
    pub writes: Vec<Act>,
    pub read_default: Act,
    pub write_default: Act,
}

impl Sched {
    pub fn none() -> Self {
        Sched { reads: vec![], writes: vec![], read_default: Act::Pass, write_default: Act::Pass }
    }
    fn render(&self) -> String {
        fn one(tag: char, a: &Act) -> String {
            match a {
                Act::Pass => format!("{tag} -\n"),
                Act::Max(n) => format!("{tag} n {n}\n"),
                Act::Err(e) => format!("{tag} e {e}\n"),
            }
        }
        let mut s = String::new();
        for a in &self.reads {
            s += &one('r', a);
        }
        for a in &self.writes {
            s += &one('w', a);
        }
        s += &one('R', &self.read_default);
        s += &one('W', &self.write_default);
        s
    }
}

#[derive(Clone, Debug, PartialEq, Eq, Hash, Serialize, Deserialize)]
pub struct Scenario {
    pub profile: Profile,
    pub patterns: Vec<String>,
    /// the first `p_count` patterns go through `-p` (joined by newlines), the rest through `-f`
    pub p_count: usize,
    /// (name, lines); every line is LF-terminated in the file
    pub files: Vec<(String, Vec<String>)>,
    /// used when `files` is empty
    pub stdin_lines: Vec<String>,
    pub flag_n: bool,
    pub flag_h: bool,
    pub color: Color,
    /// `--color=X` (true) or `--color X` (false)
    pub color_eq: bool,
    pub term: Option<String>,
    pub no_color: bool,
    pub mode: Mode,
    pub sched: Sched,
    /// layout of the pattern file: bit 0 = last line without LF, bit 1 = a blank line in the
    /// middle, bit 2 = a blank line first (blank lines are not patterns)
    #[serde(default)]
    pub pat_file_layout: u8,
    /// layout of the `-p` value: bit 0 = trailing newline, bit 1 = an empty segment in the middle
    #[serde(default)]
    pub p_layout: u8,
    /// how -n / -h are spelled: 0 = separate short options, 1 = combined (`-nh`), 2 = long
    /// forms, 3 = short options after the FILE arguments, 4 = `--` before the FILE arguments,
    /// 5 = the pattern file attached to its option (`-fpats.txt`)
    #[serde(default)]
    pub flag_style: u8,
    /// soft and hard RLIMIT_NOFILE of the child (0 = inherited): a tool that reads its inputs one
    /// after the other needs a handful of descriptors however many FILE arguments it gets
    #[serde(default)]
    pub nofile_limit: u32,
    /// the inputs are not regular files: every FILE argument is a FIFO fed by a writer and
    /// standard input is a pipe (sizes reported by the file system are 0, reads return what the
    /// writer has supplied so far, a seek fails)
    #[serde(default)]
    pub pipe_inputs: bool,
    /// lines of the file behind standard input that its previous owner has already read: the
    /// descriptor is handed over with its offset after them (`{ read header; daacfind ...; } < f`);
    /// they are not part of the tool's input
    #[serde(default)]
    pub stdin_consumed: Vec<String>,
    /// only this many `pthread_create` calls of the process succeed, later ones fail with EAGAIN
    /// (None = no limit): a tool that spreads its work over threads must give the same output, or
    /// fail, when the system refuses to start them
    #[serde(default)]
    pub threads_allowed: Option<u32>,
    /// every stat answer about the file behind standard output carries the inode number of the
    /// first input file and another device number: an output file on a second file system whose
    /// inode number happens to equal an input's (what "is the input also the output?" checks meet)
    #[serde(default)]
    pub stdout_ino_alias: bool,
}

#[derive(Clone, Debug, Serialize, Deserialize)]
pub struct Violation {
    pub class: String,
    pub detail: String,
}

#[derive(Clone, Debug, Default, Serialize, Deserialize)]
pub struct Counters {
    pub processes: u64,
    pub syscalls: u64,
    // faults that fired
    pub f_short_read: u64,
    pub f_short_write: u64,
    pub f_eintr_read: u64,
    pub f_eintr_write: u64,
    pub f_eio_read: u64,
    pub f_eagain_read: u64,
    pub f_thread_refused: u64,
    pub f_stdout_stat_aliased: u64,
    pub f_enospc_write: u64,
    pub f_epipe_write: u64,
    pub f_read_split_inside_line: u64,
    pub f_read_split_inside_char: u64,
    pub f_write_split_inside_line: u64,
    pub f_write_split_inside_escape: u64,
    // probes
    pub p_line_longer_than_buffer: u64,
    pub p_pattern_file_trickled: u64,
    pub p_two_files_no_filename: u64,
    pub p_colored_runs: u64,
    pub p_highlight_checked_lines: u64,
    pub p_multibyte_highlight: u64,
    pub p_dev_runs: u64,
    pub p_release_runs: u64,
    pub p_auto_colored: u64,
    pub p_auto_plain: u64,
    pub p_overlapping_occurrences: u64,
    pub p_empty_output: u64,
    pub p_tall_input: u64,
    pub p_more_than_256_files: u64,
    pub p_descriptor_limit: u64,
    pub p_pipe_inputs: u64,
    pub p_fifo_files: u64,
    pub p_stdin_offset: u64,
    pub known_findings: u64,
}

impl Counters {
    pub fn add(&mut self, o: &Counters) {
        macro_rules! a { ($($f:ident),*) => { $( self.$f += o.$f; )* } }
        a!(
            processes, syscalls, f_short_read, f_short_write, f_eintr_read, f_eintr_write,
            f_eio_read, f_eagain_read, f_thread_refused, f_stdout_stat_aliased, f_enospc_write, f_epipe_write, f_read_split_inside_line,
            f_read_split_inside_char, f_write_split_inside_line, f_write_split_inside_escape,
            p_line_longer_than_buffer, p_pattern_file_trickled, p_two_files_no_filename,
            p_colored_runs, p_highlight_checked_lines, p_multibyte_highlight, p_dev_runs,
            p_release_runs, p_auto_colored, p_auto_plain, p_overlapping_occurrences,
            p_empty_output, p_tall_input, p_more_than_256_files, p_descriptor_limit, p_pipe_inputs, p_fifo_files, p_stdin_offset, known_findings
        );
    }
}

pub struct Outcome {
    pub violation: Option<Violation>,
    /// name of a known finding this run re-observed (instead of a violation)
    pub known: Option<String>,
    pub counters: Counters,
    pub nontrivial: bool,
    /// hash of the intercepted call log (the "interleaving" of this run)
    pub trace_hash: u64,
    pub nreads: usize,
    pub nwrites: usize,
    /// per intercepted call: requested size (reads then writes), for enumeration
    pub read_reqs: Vec<usize>,
    pub write_reqs: Vec<usize>,
}

pub struct Bins {
    pub dev: PathBuf,
    pub release: PathBuf,
    pub shim: PathBuf,
}

// ---------------------------------------------------------------------------------------
// reference model

fn file_bytes(lines: &[String]) -> Vec<u8> {
    let mut v = Vec::new();
    for l in lines {
        v.extend_from_slice(l.as_bytes());
        v.push(b'\n');
    }
    v
}

fn pattern_file_bytes(sc: &Scenario) -> Vec<u8> {
    let pats = &sc.patterns[sc.p_count.min(sc.patterns.len())..];
    let mut v = Vec::new();
    if sc.pat_file_layout & 4 != 0 {
        v.push(b'\n');
    }
    for (i, p) in pats.iter().enumerate() {
        v.extend_from_slice(p.as_bytes());
        let last = i + 1 == pats.len();
        if !(last && sc.pat_file_layout & 1 != 0) {
            v.push(b'\n');
        }
        if i == 0 && !last && sc.pat_file_layout & 2 != 0 {
            v.push(b'\n');
        }
    }
    v
}

/// Bytes of `text` covered by at least one occurrence of some pattern.
fn coverage(text: &[u8], pats: &[&[u8]]) -> (bool, Vec<bool>, bool) {
    let mut cov = vec![false; text.len()];
    let mut any = false;
    let mut overlapping = false;
    for p in pats {
        if p.is_empty() || p.len() > text.len() {
            continue;
        }
        for i in 0..=text.len() - p.len() {
            if &text[i..i + p.len()] == *p {
                any = true;
                for c in cov[i..i + p.len()].iter_mut() {
                    if *c {
                        overlapping = true;
                    }
                    *c = true;
                }
            }
        }
    }
    (any, cov, overlapping)
}

struct ExpLine {
    file: usize,
    idx: usize,
    text: Vec<u8>,
    cov: Vec<bool>,
}

/// `strip_cr`: model of the known CR-stripping behaviour (see known_findings.json).
fn expected_lines(sc: &Scenario, strip_cr: bool) -> (Vec<ExpLine>, usize, bool) {
    let pats: Vec<&[u8]> = sc.patterns.iter().map(|p| p.as_bytes()).collect();
    let mut out = vec![];
    let mut nonmatching = 0;
    let mut overlapping = false;
    let mut scan = |file: usize, lines: &Vec<String>| {
        for (idx, l) in lines.iter().enumerate() {
            let mut t = l.as_bytes();
            if strip_cr && t.last() == Some(&b'\r') {
                t = &t[..t.len() - 1];
            }
            let (any, cov, ov) = coverage(t, &pats);
            if any {
                overlapping |= ov;
                out.push(ExpLine { file, idx, text: t.to_vec(), cov });
            } else {
                nonmatching += 1;
            }
        }
    };
    if sc.files.is_empty() {
        scan(0, &sc.stdin_lines);
    } else {
        for (fi, (_, lines)) in sc.files.iter().enumerate() {
            scan(fi, lines);
        }
    }
    (out, nonmatching, overlapping)
}

/// One way of rendering the prefixes: (file-name prefix on?, line-number base).
#[derive(Clone, Copy, Debug, PartialEq)]
struct Style {
    fname: bool,
    base: Option<usize>,
}

fn styles(sc: &Scenario) -> Vec<Style> {
    let fnames: Vec<bool> = if sc.files.is_empty() || sc.flag_h {
        vec![false]
    } else if sc.files.len() == 1 {
        // the property leaves open whether a single file gets a prefix (grep: no; daacfind: yes)
        vec![true, false]
    } else {
        vec![true]
    };
    // the property does not fix the base of line numbers; it has to be consistent per run
    let bases: Vec<Option<usize>> = if sc.flag_n { vec![Some(0), Some(1)] } else { vec![None] };
    let mut v = vec![];
    for &f in &fnames {
        for &b in &bases {
            v.push(Style { fname: f, base: b });
        }
    }
    v
}

fn prefix(sc: &Scenario, st: Style, l: &ExpLine) -> Vec<u8> {
    let mut p = Vec::new();
    if st.fname {
        p.extend_from_slice(sc.files[l.file].0.as_bytes());
        p.push(b':');
    }
    if let Some(b) = st.base {
        p.extend_from_slice(format!("{}:", l.idx + b).as_bytes());
    }
    p
}

/// Plain rendering plus, per byte, what the model says about its highlight.
fn render(sc: &Scenario, st: Style, lines: &[ExpLine]) -> (Vec<u8>, Vec<Want>) {
    let mut out = Vec::new();
    let mut hl = Vec::new();
    for l in lines {
        let p = prefix(sc, st, l);
        hl.extend(std::iter::repeat(Want::Prefix).take(p.len()));
        out.extend_from_slice(&p);
        out.extend_from_slice(&l.text);
        hl.extend(l.cov.iter().map(|&c| Want::Text(c)));
        out.push(b'\n');
        hl.push(Want::Newline);
    }
    (out, hl)
}

/// Remove escape sequences; per remaining byte, the id of the SGR style active there (0 = none,
/// i.e. after a reset). Any CSI sequence is accepted; only `m` (SGR) changes the style.
/// `allow_truncated_tail`: an incomplete escape sequence at the very end is tolerated
/// (output cut by a write fault).
fn strip_sgr(raw: &[u8], allow_truncated_tail: bool) -> Result<(Vec<u8>, Vec<u32>, Vec<(usize, usize)>), String> {
    let mut plain = Vec::with_capacity(raw.len());
    let mut hl = Vec::with_capacity(raw.len());
    let mut spans = vec![];
    let mut styles: Vec<Vec<u8>> = vec![];
    let mut cur = 0u32;
    let mut i = 0;
    while i < raw.len() {
        if raw[i] == 0x1b {
            let start = i;
            let mut j = i + 1;
            let mut ok = false;
            if j < raw.len() && raw[j] == b'[' {
                j += 1;
                let ps = j;
                while j < raw.len() && (0x30..=0x3f).contains(&raw[j]) {
                    j += 1;
                }
                let pe = j;
                while j < raw.len() && (0x20..=0x2f).contains(&raw[j]) {
                    j += 1;
                }
                if j < raw.len() && (0x40..=0x7e).contains(&raw[j]) {
                    if raw[j] == b'm' {
                        let params = &raw[ps..pe];
                        // codes that switch attributes OFF: 0 (all), 21-29, 39 (default
                        // foreground), 49 (default background), 54, 55, 59
                        let off = |p: &[u8]| -> bool {
                            let v: u32 = std::str::from_utf8(p).ok().and_then(|s| if s.is_empty() { Some(0) } else { s.parse().ok() }).unwrap_or(u32::MAX);
                            v == 0 || (21..=29).contains(&v) || v == 39 || v == 49 || v == 54 || v == 55 || v == 59
                        };
                        let reset = params.split(|&c| c == b';' || c == b':').all(off);
                        if reset {
                            cur = 0;
                        } else {
                            let id = match styles.iter().position(|s| s == params) {
                                Some(p) => p,
                                None => {
                                    styles.push(params.to_vec());
                                    styles.len() - 1
                                }
                            };
                            cur = id as u32 + 1;
                        }
                    }
                    j += 1;
                    ok = true;
                }
            }
            if !ok && i + 1 < raw.len() && raw[i + 1] == b']' {
                // OSC: up to BEL or ST
                let mut k = i + 2;
                while k < raw.len() && raw[k] != 0x07 && !(raw[k] == 0x1b && k + 1 < raw.len() && raw[k + 1] == b'\\') {
                    k += 1;
                }
                if k < raw.len() {
                    j = if raw[k] == 0x07 { k + 1 } else { k + 2 };
                    ok = true;
                } else {
                    j = raw.len();
                }
            } else if !ok && i + 1 < raw.len() && raw[i + 1] != b'[' {
                // two- or three-byte sequences such as ESC ( B (character set) or ESC =
                let mut k = i + 1;
                while k < raw.len() && (0x20..=0x2f).contains(&raw[k]) {
                    k += 1;
                }
                if k < raw.len() && (0x30..=0x7e).contains(&raw[k]) {
                    j = k + 1;
                    ok = true;
                } else {
                    j = raw.len().min(k + 1);
                }
            }
            if !ok {
                if allow_truncated_tail && j >= raw.len() {
                    break;
                }
                return Err(format!("malformed escape sequence at output byte {start}"));
            }
            spans.push((start, j));
            i = j;
        } else {
            plain.push(raw[i]);
            hl.push(cur);
            i += 1;
        }
    }
    Ok((plain, hl, spans))
}

/// What the model says about the highlight of one output byte.
#[derive(Clone, Copy, PartialEq, Debug)]
enum Want {
    /// byte of the line's text: highlighted iff covered by an occurrence
    Text(bool),
    /// byte of a file-name / line-number prefix: never in a style used for matches
    Prefix,
    /// the newline: not constrained
    Newline,
}

/// Compare the styles of the first `n` output bytes with the model. Text bytes: styled iff
/// covered. Prefix bytes: unstyled, or styled differently from every matched byte (a tool may
/// colour its prefixes, as grep does; the match highlight leaking into a prefix is an error).
fn check_highlight(plain: &[u8], hl: &[u32], want: &[Want], n: usize) -> Result<(), (usize, String)> {
    let mut match_styles: Vec<u32> = vec![];
    for i in 0..n {
        if let Want::Text(w) = want[i] {
            if (hl[i] != 0) != w {
                return Err((
                    i,
                    format!(
                        "is {} but should be {}",
                        if hl[i] != 0 { "highlighted" } else { "not highlighted" },
                        if w { "highlighted (covered by an occurrence)" } else { "plain (covered by no occurrence)" }
                    ),
                ));
            }
            if w && !match_styles.contains(&hl[i]) {
                match_styles.push(hl[i]);
            }
        }
    }
    for i in 0..n {
        if want[i] == Want::Prefix && hl[i] != 0 && match_styles.contains(&hl[i]) {
            return Err((i, "belongs to a file-name/line-number prefix but is printed in the match highlight".into()));
        }
    }
    let _ = plain;
    Ok(())
}

fn show(b: &[u8]) -> String {
    let s = String::from_utf8_lossy(b);
    let s: String = s.chars().take(160).collect();
    format!("{s:?}")
}

fn first_diff_line(a: &[u8], b: &[u8]) -> String {
    let la: Vec<&[u8]> = a.split(|&c| c == b'\n').collect();
    let lb: Vec<&[u8]> = b.split(|&c| c == b'\n').collect();
    for i in 0..la.len().max(lb.len()) {
        let x = la.get(i).copied();
        let y = lb.get(i).copied();
        if x != y {
            return format!(
                "output line {i}: got {}, expected {}",
                x.map(show).unwrap_or("<nothing>".into()),
                y.map(show).unwrap_or("<nothing>".into())
            );
        }
    }
    "outputs differ".into()
}

pub struct RunResult {
    pub status: Option<i32>,
    pub signal: Option<i32>,
    pub stdout: Vec<u8>,
    pub stderr: Vec<u8>,
    pub log: String,
    pub timed_out: bool,
}

/// Full oracle (fault-free and benign faults). Returns `Ok(checked highlight lines)`.
fn judge_full(sc: &Scenario, r: &RunResult, strip_cr: bool, c: &mut Counters) -> Result<(), Violation> {
    let (lines, _, _) = expected_lines(sc, strip_cr);
    let may_color = matches!(sc.color, Color::Always | Color::Auto);
    // with colouring off the output is compared byte for byte (the input itself may contain ESC)
    let has_esc = may_color && r.stdout.contains(&0x1b);
    let (plain, hl) = if has_esc {
        match strip_sgr(&r.stdout, false) {
            Ok((p, h, _)) => (p, Some(h)),
            Err(e) => return Err(Violation { class: "garbled-escape".into(), detail: e }),
        }
    } else {
        (r.stdout.clone(), None)
    };
    let sts = styles(sc);
    let mut matched = None;
    for st in &sts {
        let (want, want_hl) = render(sc, *st, &lines);
        if want == plain {
            matched = Some(want_hl);
            break;
        }
    }
    let Some(want_hl) = matched else {
        let (want, _) = render(sc, sts[0], &lines);
        return Err(Violation {
            class: "wrong-lines".into(),
            detail: format!("printed text differs from the matching lines ({} expected lines): {}", lines.len(), first_diff_line(&plain, &want)),
        });
    };
    let colored = match sc.color {
        Color::Always => true,
        Color::Auto => hl.is_some(),
        _ => false,
    };
    if colored {
        let hl = hl.unwrap_or_else(|| vec![0; plain.len()]);
        if let Err((i, what)) = check_highlight(&plain, &hl, &want_hl, plain.len()) {
            let ls = plain[..i].iter().rposition(|&c| c == b'\n').map(|p| p + 1).unwrap_or(0);
            let le = plain[i..].iter().position(|&c| c == b'\n').map(|p| i + p).unwrap_or(plain.len());
            return Err(Violation {
                class: "wrong-highlight".into(),
                detail: format!("byte {} of output line {} {}", i - ls, show(&plain[ls..le]), what),
            });
        }
        c.p_highlight_checked_lines += lines.len() as u64;
        if lines.iter().any(|l| l.text.iter().zip(&l.cov).any(|(b, c)| *c && *b >= 0x80)) {
            c.p_multibyte_highlight += 1;
        }
    }
    Ok(())
}

/// Relaxed oracle after a hard fault: nothing but (a prefix of) expected lines, in order,
/// text unchanged; no panic. `read_fault_file`: index of the input whose read failed.
fn judge_hard(sc: &Scenario, r: &RunResult, write_fault: bool, read_fault_file: Option<usize>, pattern_file_fault: bool, strip_cr: bool) -> Result<(), Violation> {
    let (lines, _, _) = expected_lines(sc, strip_cr);
    let may_color = matches!(sc.color, Color::Always | Color::Auto);
    let (plain, hl, _) = if may_color {
        match strip_sgr(&r.stdout, true) {
            Ok(x) => x,
            Err(e) => return Err(Violation { class: "garbled-escape".into(), detail: e }),
        }
    } else {
        (r.stdout.clone(), vec![0; r.stdout.len()], vec![])
    };
    if pattern_file_fault {
        if !plain.is_empty() {
            return Err(Violation { class: "wrong-lines".into(), detail: "output although the pattern file could not be read".into() });
        }
        return Ok(());
    }
    let colored = may_color && r.stdout.contains(&0x1b);
    for st in styles(sc) {
        // candidate line sequences: all files complete, except `read_fault_file` which may stop
        // after any number of its lines, after which either nothing or all later files follow
        let mut cands: Vec<Vec<&ExpLine>> = vec![];
        match read_fault_file {
            None => cands.push(lines.iter().collect()),
            Some(k) => {
                let before: Vec<&ExpLine> = lines.iter().filter(|l| l.file < k).collect();
                let of_k: Vec<&ExpLine> = lines.iter().filter(|l| l.file == k).collect();
                let after: Vec<&ExpLine> = lines.iter().filter(|l| l.file > k).collect();
                for n in 0..=of_k.len() {
                    let mut a = before.clone();
                    a.extend_from_slice(&of_k[..n]);
                    cands.push(a.clone());
                    if !after.is_empty() {
                        a.extend_from_slice(&after);
                        cands.push(a);
                    }
                }
                // a tool that reads everything before it prints anything, or buffers its output
                // and gives up on the error, legitimately prints less: any line-prefix of what
                // precedes the failing input
                for n in 0..before.len() {
                    cands.push(before[..n].to_vec());
                }
            }
        }
        for cand in cands {
            let owned: Vec<ExpLine> = cand.iter().map(|l| ExpLine { file: l.file, idx: l.idx, text: l.text.clone(), cov: l.cov.clone() }).collect();
            let (want, want_hl) = render(sc, st, &owned);
            let ok_text = if write_fault { want.starts_with(&plain) } else { want == plain };
            if !ok_text {
                continue;
            }
            if colored {
                if let Err((i, what)) = check_highlight(&plain, &hl, &want_hl, plain.len()) {
                    return Err(Violation { class: "wrong-highlight".into(), detail: format!("after a hard fault: output byte {i} {what}") });
                }
            }
            return Ok(());
        }
    }
    let (want, _) = render(sc, styles(sc)[0], &lines);
    Err(Violation {
        class: "wrong-lines".into(),
        detail: format!("after a hard fault the output is not a prefix/sub-sequence of the expected lines: {}", first_diff_line(&plain, &want)),
    })
}

// ---------------------------------------------------------------------------------------
// execution

fn argv(sc: &Scenario) -> Vec<String> {
    let mut a = vec![];
    if sc.p_count > 0 {
        a.push("-p".to_string());
        let ps = &sc.patterns[..sc.p_count];
        let mut v = String::new();
        for (i, p) in ps.iter().enumerate() {
            v.push_str(p);
            if i + 1 < ps.len() {
                v.push('\n');
                if i == 0 && sc.p_layout & 2 != 0 {
                    v.push('\n');
                }
            }
        }
        if sc.p_layout & 1 != 0 {
            v.push('\n');
        }
        a.push(v);
    }
    if sc.p_count < sc.patterns.len() {
        if sc.flag_style == 5 {
            // the value attached to the short option
            a.push("-fpats.txt".to_string());
        } else {
            a.push("-f".to_string());
            a.push("pats.txt".to_string());
        }
    }
    let mut late: Vec<String> = vec![];
    match sc.flag_style {
        1 if sc.flag_n && sc.flag_h => a.push("-nh".into()),
        2 => {
            if sc.flag_n {
                a.push("--line-number".into());
            }
            if sc.flag_h {
                a.push("--no-filename".into());
            }
        }
        3 => {
            if sc.flag_n {
                late.push("-n".into());
            }
            if sc.flag_h {
                late.push("-h".into());
            }
        }
        _ => {
            if sc.flag_n {
                a.push("-n".into());
            }
            if sc.flag_h {
                a.push("-h".into());
            }
        }
    }
    let cv = match sc.color {
        Color::Default => None,
        Color::Never => Some("never"),
        Color::Always => Some("always"),
        Color::Auto => Some("auto"),
    };
    if let Some(cv) = cv {
        if sc.color_eq {
            a.push(format!("--color={cv}"));
        } else {
            a.push("--color".into());
            a.push(cv.into());
        }
    }
    if sc.flag_style == 4 {
        // the conventional end-of-options marker
        a.push("--".into());
    }
    for (name, _) in &sc.files {
        a.push(name.clone());
    }
    a.extend(late);
    a
}

fn clear_dir(dir: &Path) {
    if let Ok(rd) = std::fs::read_dir(dir) {
        for e in rd.flatten() {
            let _ = std::fs::remove_file(e.path());
        }
    }
}

thread_local! {
    /// seconds a daacfind process may run before it is killed (lower while minimising a hang)
    pub static PROCESS_TIMEOUT_S: std::cell::Cell<u64> = const { std::cell::Cell::new(20) };
    /// re-run a timed-out scenario twice before believing the hang (off while minimising: the
    /// minimised scenario is verified with confirmation afterwards)
    pub static CONFIRM_HANGS: std::cell::Cell<bool> = const { std::cell::Cell::new(true) };
}

pub fn execute(sc: &Scenario, bins: &Bins, dir: &Path) -> RunResult {
    std::fs::create_dir_all(dir).expect("harness: cannot create run directory");
    clear_dir(dir);
    let w = |name: &str, data: &[u8]| {
        let mut f = std::fs::File::create(dir.join(name)).expect("harness: cannot write run file");
        f.write_all(data).expect("harness: cannot write run file");
    };
    // pipe mode: FIFOs fed by writer threads. A writer hands over its whole content with one
    // write call, which the kernel serves under the pipe's lock as long as it fits the pipe
    // (64 KiB): the sizes the reader sees are then a function of its own requests only.
    let mut feeders: Vec<std::thread::JoinHandle<()>> = vec![];
    let mut fifos: Vec<PathBuf> = vec![];
    let mut fifo = |name: &str, data: Vec<u8>| {
        let p = dir.join(name);
        let cp = std::ffi::CString::new(p.as_os_str().as_encoded_bytes()).expect("harness: file name with NUL");
        let rc = unsafe { libc::mkfifo(cp.as_ptr(), 0o600) };
        assert!(rc == 0, "harness: mkfifo failed: {}", std::io::Error::last_os_error());
        let p2 = p.clone();
        feeders.push(std::thread::spawn(move || {
            // blocks until the reader opens the FIFO (or the harness releases it below)
            if let Ok(mut f) = std::fs::OpenOptions::new().write(true).open(&p2) {
                let _ = f.write_all(&data);
            }
        }));
        fifos.push(p);
    };
    for (name, lines) in &sc.files {
        if sc.pipe_inputs {
            fifo(name, file_bytes(lines));
        } else {
            w(name, &file_bytes(lines));
        }
    }
    let consumed = file_bytes(&sc.stdin_consumed);
    let mut stdin_data = consumed.clone();
    stdin_data.extend_from_slice(&file_bytes(&sc.stdin_lines));
    w("stdin.txt", &stdin_data);
    if sc.p_count < sc.patterns.len() {
        // `-f <(generator)`: the pattern file of a pipe-mode run is a FIFO as well
        if sc.pipe_inputs {
            fifo("pats.txt", pattern_file_bytes(sc));
        } else {
            w("pats.txt", &pattern_file_bytes(sc));
        }
    }
    let mut sched_txt = sc.sched.render();
    if let Some(k) = sc.threads_allowed {
        sched_txt += &format!("t n {k}\n");
    }
    if sc.stdout_ino_alias && !sc.pipe_inputs {
        if let Some((name, _)) = sc.files.first() {
            use std::os::unix::fs::MetadataExt;
            let ino = std::fs::metadata(dir.join(name)).expect("harness: stat of an input file").ino();
            sched_txt += &format!("s i {ino}\n");
        }
    }
    w("sched.txt", sched_txt.as_bytes());
    let bin = match sc.profile {
        Profile::Dev => &bins.dev,
        Profile::Release => &bins.release,
    };
    let mut cmd = Command::new(bin);
    cmd.args(argv(sc))
        .current_dir(dir)
        .env_clear()
        .env("LD_PRELOAD", &bins.shim)
        .env("IOFAULT_SCHEDULE", dir.join("sched.txt"))
        .env("IOFAULT_LOG", dir.join("io.log"))
        .env("IOFAULT_DIR", dir)
        .env("RUST_BACKTRACE", "0")
        .stdin(if sc.pipe_inputs {
            Stdio::piped()
        } else {
            let mut f = std::fs::File::open(dir.join("stdin.txt")).unwrap();
            if !consumed.is_empty() {
                use std::io::Seek;
                f.seek(std::io::SeekFrom::Start(consumed.len() as u64)).expect("harness: seek");
            }
            Stdio::from(f)
        })
        .stdout(Stdio::from(std::fs::File::create(dir.join("out.bin")).unwrap()))
        .stderr(Stdio::from(std::fs::File::create(dir.join("err.txt")).unwrap()));
    if sc.nofile_limit > 0 {
        use std::os::unix::process::CommandExt;
        let n = sc.nofile_limit as libc::rlim_t;
        unsafe {
            cmd.pre_exec(move || {
                let lim = libc::rlimit { rlim_cur: n, rlim_max: n };
                if libc::setrlimit(libc::RLIMIT_NOFILE, &lim) != 0 {
                    return Err(std::io::Error::last_os_error());
                }
                Ok(())
            });
        }
    }
    if let Some(t) = &sc.term {
        cmd.env("TERM", t);
    }
    if sc.no_color {
        cmd.env("NO_COLOR", "1");
    }
    let mut child = cmd.spawn().expect("harness: cannot spawn daacfind");
    if sc.pipe_inputs {
        if let Some(mut si) = child.stdin.take() {
            let data = file_bytes(&sc.stdin_lines);
            feeders.push(std::thread::spawn(move || {
                let _ = si.write_all(&data);
            }));
        }
    }
    let t0 = Instant::now();
    let mut timed_out = false;
    let status = loop {
        match child.try_wait().expect("harness: wait failed") {
            Some(s) => break Some(s),
            None => {
                if t0.elapsed() > Duration::from_secs(PROCESS_TIMEOUT_S.with(|t| t.get())) {
                    let _ = child.kill();
                    let _ = child.wait();
                    timed_out = true;
                    break None;
                }
                // the only real-time wait in the harness: it does not influence the run, which
                // is a function of argv, files, environment and schedule
                std::thread::sleep(Duration::from_micros(if t0.elapsed() < Duration::from_millis(5) { 100 } else { 1000 }));
            }
        }
    };
    // writers of FIFOs the process never opened (or stopped reading) are released: a reader that
    // comes and goes lets their open() return and their write fail
    for h in feeders {
        while !h.is_finished() {
            for p in &fifos {
                use std::os::unix::fs::OpenOptionsExt;
                drop(std::fs::OpenOptions::new().read(true).custom_flags(libc::O_NONBLOCK).open(p));
            }
            std::thread::sleep(Duration::from_micros(200));
        }
        let _ = h.join();
    }
    use std::os::unix::process::ExitStatusExt;
    RunResult {
        status: status.and_then(|s| s.code()),
        signal: status.and_then(|s| s.signal()),
        stdout: std::fs::read(dir.join("out.bin")).unwrap_or_default(),
        stderr: std::fs::read(dir.join("err.txt")).unwrap_or_default(),
        log: std::fs::read_to_string(dir.join("io.log")).unwrap_or_default(),
        timed_out,
    }
}

struct LogCall {
    write: bool,
    fd: i32,
    req: usize,
    act: String,
    res: i64,
}

fn parse_log(log: &str) -> (Vec<LogCall>, Vec<(i32, String)>) {
    let mut calls = vec![];
    let mut opens = vec![];
    for l in log.lines() {
        let f: Vec<&str> = l.split(' ').collect();
        match f.first() {
            Some(&"o") if f.len() >= 3 => opens.push((f[1].parse().unwrap_or(-1), f[2..].join(" "))),
            Some(&k) if (k == "r" || k == "w") && f.len() >= 6 => calls.push(LogCall {
                write: k == "w",
                fd: f[1].parse().unwrap_or(-1),
                req: f[2].parse().unwrap_or(0),
                act: f[3].to_string(),
                res: f[4].parse().unwrap_or(0),
            }),
            _ => {}
        }
    }
    (calls, opens)
}

pub fn run(sc: &Scenario, bins: &Bins, dir: &Path, known_crlf: bool) -> Outcome {
    let mut r = execute(sc, bins, dir);
    if r.timed_out && CONFIRM_HANGS.with(|c| c.get()) {
        // a hang is only believed if the same scenario hangs twice more; a process that was
        // merely starved once is re-judged on its completed run
        for _ in 0..2 {
            let again = execute(sc, bins, dir);
            if !again.timed_out {
                r = again;
                break;
            }
        }
    }
    let mut c = Counters::default();
    c.processes = 1;
    match sc.profile {
        Profile::Dev => c.p_dev_runs += 1,
        Profile::Release => c.p_release_runs += 1,
    }
    let (calls, opens) = parse_log(&r.log);
    c.syscalls = calls.len() as u64;
    let threads_refused = r.log.lines().filter(|l| l.starts_with("t ") && l.ends_with(" refused")).count() as u64;
    c.f_thread_refused += threads_refused;
    c.f_stdout_stat_aliased += r.log.lines().filter(|l| l.starts_with("s ") && l.ends_with(" aliased")).count() as u64;
    let mut h = DefaultHasher::new();
    r.log.hash(&mut h);
    let mut trace_hash = h.finish();
    if !sc.stdin_consumed.is_empty() && !sc.pipe_inputs && sc.files.is_empty() {
        c.p_stdin_offset += 1;
    }
    if sc.pipe_inputs {
        c.p_pipe_inputs += 1;
        c.p_fifo_files += sc.files.len() as u64;
        if sc.files.iter().any(|f| file_bytes(&f.1).len() > 60_000) || file_bytes(&sc.stdin_lines).len() > 60_000 {
            // more than a pipe holds: the sizes of the reads depend on how the writer is
            // scheduled; the verdict does not, and the recorded interleaving must not either
            let mut h = DefaultHasher::new();
            (&r.stdout, r.status).hash(&mut h);
            trace_hash = h.finish();
        }
    }

    // which file does an fd refer to at the time of a call? replay opens in log order
    let mut fd_file: std::collections::HashMap<i32, String> = Default::default();
    // the same name may be given (and opened) several times: remember which opening an fd is
    let mut fd_occurrence: std::collections::HashMap<i32, usize> = Default::default();
    let mut opened_so_far: std::collections::HashMap<String, usize> = Default::default();
    let mut offsets: std::collections::HashMap<(i32, String), usize> = Default::default();
    let mut pattern_fault = false;
    let mut read_fault_file: Option<usize> = None;
    let mut write_fault = false;
    let mut out_off = 0usize;
    let mut inside_line_fault = false;
    let (_, _, spans) = if matches!(sc.color, Color::Always | Color::Auto) { strip_sgr(&r.stdout, true).unwrap_or_default() } else { Default::default() };
    // walk the raw log again so that opens and calls interleave correctly
    let mut read_reqs = vec![];
    let mut write_reqs = vec![];
    let mut ci = 0;
    let mut oi = 0;
    for l in r.log.lines() {
        if l.starts_with("o ") {
            if let Some((fd, p)) = opens.get(oi) {
                fd_file.insert(*fd, p.clone());
                let n = opened_so_far.entry(p.clone()).or_insert(0);
                fd_occurrence.insert(*fd, *n);
                *n += 1;
            }
            oi += 1;
            continue;
        }
        let Some(call) = calls.get(ci) else { break };
        ci += 1;
        let shortened = call.act.starts_with('n') && call.res >= 0 && (call.res as usize) < call.req && call.act[1..].parse::<i64>().ok() == Some(call.res);
        if call.write {
            write_reqs.push(call.req);
            if call.res > 0 {
                out_off += call.res as usize;
            }
            if shortened {
                c.f_short_write += 1;
                if out_off > 0 && out_off < r.stdout.len() && r.stdout[out_off - 1] != b'\n' {
                    c.f_write_split_inside_line += 1;
                    inside_line_fault = true;
                }
                if spans.iter().any(|(s, e)| *s < out_off && out_off < *e) {
                    c.f_write_split_inside_escape += 1;
                }
            }
            match call.act.as_str() {
                "e4" => c.f_eintr_write += 1,
                "e28" => { c.f_enospc_write += 1; write_fault = true; }
                "e32" => { c.f_epipe_write += 1; write_fault = true; }
                a if a.starts_with('e') => write_fault = true,
                _ => {}
            }
        } else {
            read_reqs.push(call.req);
            let name = if call.fd == 0 {
                "stdin.txt".to_string()
            } else {
                // the tool may open "./a.txt" or an absolute path for the argument "a.txt"
                let p = fd_file.get(&call.fd).cloned().unwrap_or_default();
                p.rsplit('/').next().unwrap_or("").to_string()
            };
            let content: Vec<u8> = if name == "stdin.txt" {
                file_bytes(&sc.stdin_lines)
            } else if name == "pats.txt" {
                pattern_file_bytes(sc)
            } else {
                sc.files.iter().find(|(n, _)| *n == name).map(|(_, l)| file_bytes(l)).unwrap_or_default()
            };
            let off = offsets.entry((call.fd, format!("{name}#{}", fd_occurrence.get(&call.fd).copied().unwrap_or(0)))).or_insert(0);
            if call.res > 0 {
                *off += call.res as usize;
            }
            if shortened {
                c.f_short_read += 1;
                if name == "pats.txt" && call.res == 1 {
                    c.p_pattern_file_trickled += 1;
                }
                let b = *off;
                if b > 0 && b < content.len() {
                    if content[b - 1] != b'\n' {
                        c.f_read_split_inside_line += 1;
                        if name != "pats.txt" {
                            inside_line_fault = true;
                        }
                    }
                    if (content[b] & 0xC0) == 0x80 {
                        c.f_read_split_inside_char += 1;
                    }
                }
            }
            match call.act.as_str() {
                "e4" => c.f_eintr_read += 1,
                a if a.starts_with('e') => {
                    if a == "e11" {
                        c.f_eagain_read += 1;
                    } else {
                        c.f_eio_read += 1;
                    }
                    if name == "pats.txt" {
                        pattern_fault = true;
                    } else if name == "stdin.txt" {
                        read_fault_file = Some(0);
                    } else {
                        let occ = fd_occurrence.get(&call.fd).copied().unwrap_or(0);
                        let k = sc.files.iter().enumerate().filter(|(_, (n, _))| *n == name).map(|(i, _)| i).nth(occ);
                        if let Some(k) = k.or_else(|| sc.files.iter().position(|(n, _)| *n == name)) {
                            read_fault_file = Some(k);
                        }
                    }
                }
                _ => {}
            }
        }
    }

    let all_lines = sc.files.iter().flat_map(|f| f.1.iter()).chain(sc.stdin_lines.iter());
    if all_lines.clone().any(|l| l.len() > 8192) {
        c.p_line_longer_than_buffer += 1;
    }
    if sc.files.len() >= 2 && sc.flag_h {
        c.p_two_files_no_filename += 1;
    }
    if sc.files.iter().any(|f| f.1.len() > 65_536) || sc.stdin_lines.len() > 65_536 {
        c.p_tall_input += 1;
    }
    if sc.files.len() > 256 {
        c.p_more_than_256_files += 1;
    }
    if sc.nofile_limit > 0 {
        c.p_descriptor_limit += 1;
    }
    let (exp, nonmatching, overlapping) = expected_lines(sc, false);
    if overlapping {
        c.p_overlapping_occurrences += 1;
    }
    if r.stdout.is_empty() {
        c.p_empty_output += 1;
    }
    if matches!(sc.color, Color::Always | Color::Auto) && r.stdout.contains(&0x1b) {
        c.p_colored_runs += 1;
        if sc.color == Color::Auto {
            c.p_auto_colored += 1;
        }
    } else if sc.color == Color::Auto {
        c.p_auto_plain += 1;
    }
    let nontrivial = !exp.is_empty() && nonmatching > 0 && inside_line_fault;

    let mut known = None;
    let stderr = String::from_utf8_lossy(&r.stderr);
    let violation = if r.timed_out {
        Some(Violation { class: "no-return".into(), detail: format!("daacfind did not exit within {} s (repeatedly)", PROCESS_TIMEOUT_S.with(|t| t.get())) })
    } else if (r.status == Some(101) || stderr.contains("panicked at")) && !(write_fault || read_fault_file.is_some() || pattern_fault || threads_refused > 0) {
        let first = stderr.lines().find(|l| !l.trim().is_empty()).unwrap_or("").to_string();
        let msg = stderr.lines().skip_while(|l| !l.contains("panicked at")).nth(1).unwrap_or("").to_string();
        let startup = stderr.contains("debug_asserts") || stderr.contains("clap");
        Some(Violation {
            class: if startup { "startup-panic".into() } else { "panic".into() },
            detail: format!("{:?} build panicked (exit status {:?}): {} {}", sc.profile, r.status, first.trim(), msg.trim()),
        })
    } else if let Some(sig) = r.signal {
        Some(Violation { class: "crash-signal".into(), detail: format!("daacfind was killed by signal {sig}") })
    } else {
        // a tool that could not start a thread may give up (non-zero exit status, output a prefix
        // of the right one); if it reports success its output has to be complete
        let write_fault = write_fault || (threads_refused > 0 && r.status != Some(0));
        let hard_fired = write_fault || read_fault_file.is_some() || pattern_fault;
        let res = if hard_fired {
            judge_hard(sc, &r, write_fault, read_fault_file, pattern_fault, false)
        } else {
            judge_full(sc, &r, false, &mut c)
        };
        match res {
            Ok(()) => None,
            Err(v) => {
                // is it the listed CR-stripping finding, and nothing else?
                let has_cr_line = sc.files.iter().flat_map(|f| f.1.iter()).chain(sc.stdin_lines.iter()).any(|l| l.ends_with('\r'));
                if known_crlf && has_cr_line && v.class == "wrong-lines" {
                    let mut c2 = Counters::default();
                    let again = if hard_fired {
                        judge_hard(sc, &r, write_fault, read_fault_file, pattern_fault, true)
                    } else {
                        judge_full(sc, &r, true, &mut c2)
                    };
                    if again.is_ok() {
                        known = Some("crlf-stripped".to_string());
                        c.known_findings += 1;
                        None
                    } else {
                        Some(v)
                    }
                } else {
                    Some(v)
                }
            }
        }
    };
    Outcome { violation, known, counters: c, nontrivial, trace_hash, nreads: read_reqs.len(), nwrites: write_reqs.len(), read_reqs, write_reqs }
}

pub fn scenario_hash(sc: &Scenario) -> u64 {
    let mut h = DefaultHasher::new();
    sc.hash(&mut h);
    h.finish()
}

// ---------------------------------------------------------------------------------------
// generation

const WORDS: &[&str] = &[
    "ab", "bc", "abc", "bcd", "cd", "a", "abcd", "he", "she", "his", "hers", "世界", "全世界", "界", "に", "é", "née", "ß",
    "😀", "a😀", "€uro", "x", "xx", "xyx", "foo", "foobar", "bar", "o b", " ", "::", "0:", ":", "-v", "--", "\t", "a.b", "*",
    "\u{80}", "\u{7ff}", "\u{800}", "\u{ffff}", "\u{10000}", "\u{10ffff}", "ana", "nan", "banana",
    // shapes a "modernised" front end could mishandle: surrounding blanks, case, file-name look-alikes
    " ab", "ab ", "AB", "Ab", "a.txt", "txt", "b.txt1:", "É", "ǅ", "ß ", "\t\t",
    // characters with a special role elsewhere: byte order mark, replacement character, zero-width
    // space, line separator, the code points around the surrogate gap
    "\u{feff}", "\u{feff}ab", "\u{fffd}", "\u{200b}", "\u{2028}", "\u{d7ff}\u{e000}",
];

const FILLER: &[&str] = &[
    "a", "b", "c", "d", "e", "h", "s", "r", "i", "x", "y", " ", " ", "o", "f", "世", "界", "全", "中", "に", "é", "n", "ß", "😀", "€",
    ":", "0", "1", "-", "\t", "q", "Q", "試", "\u{10fffe}", ".", "*", "\u{feff}", "\u{200b}", "\u{2028}",
    // control characters a "binary file" heuristic or a terminal-safety filter would touch
    "\u{1}", "\u{7}", "\u{8}", "\u{c}", "\u{7f}", "\u{85}", "\u{0}",
];

fn gen_line(rng: &mut Rng, pats: &[String], long: bool, alpha: Option<&[&str]>) -> String {
    let mut s = String::new();
    let kind = rng.below(10);
    if kind == 0 {
        return s; // empty line
    }
    if !long && rng.chance(1, 12) {
        // a line made of pattern occurrences only (every byte highlighted), of a length at or
        // next to a machine-word boundary when the pattern lengths can be added up to it
        let target = *rng.pick(&[7usize, 8, 9, 15, 16, 17, 31, 32, 33, 63, 64, 64, 65, 127, 128, 129, 255, 256, 257]);
        let short: Vec<&String> = pats.iter().filter(|p| p.len() <= 64).collect();
        if !short.is_empty() {
            // reach[t] = a pattern that ends a sequence of exactly t bytes
            let mut reach: Vec<Option<usize>> = vec![None; target + 1];
            let start = rng.below(short.len());
            for t in 1..=target {
                for j in 0..short.len() {
                    let i = (start + j + t) % short.len();
                    let l = short[i].len();
                    if l <= t && (t == l || reach[t - l].is_some()) {
                        reach[t] = Some(i);
                        break;
                    }
                }
            }
            let mut t = (1..=target).rev().find(|&t| reach[t].is_some()).unwrap_or(0);
            let mut parts = vec![];
            while t > 0 {
                let i = reach[t].unwrap();
                parts.push(short[i].as_str());
                t -= short[i].len();
            }
            for p in parts.iter().rev() {
                s.push_str(p);
            }
            return s;
        }
    }
    // long lines: just over the reader's 8 KiB buffer, or exactly at / around the sizes of the
    // buffers involved (stdout's LineWriter: 1024, BufReader: 8192, pipe: 65536)
    let target = if long {
        if rng.chance(1, 2) {
            rng.range(8193, 9100)
        } else {
            let b = *rng.pick(&[1024usize, 4096, 8192, 8192, 16384, 65536, 100_000, 200_000]);
            b + rng.range(0, 4) - 2
        }
    } else {
        *rng.pick(&[1usize, 3, 8, 8, 20, 20, 40, 90])
    };
    while s.len() < target {
        let r = rng.below(10);
        if kind <= 2 {
            // a line that (most likely) matches nothing
            s.push_str(*rng.pick(&["q", "Q", "試", "z", "Z", "_", "\u{10fffe}", "~"]));
        } else if r < 3 {
            s.push_str(rng.pick(pats).as_str());
        } else if r < 4 {
            // near miss: a pattern minus its last character
            let p = rng.pick(pats);
            let mut cs: Vec<char> = p.chars().collect();
            cs.pop();
            s.extend(cs);
        } else {
            s.push_str(*rng.pick(alpha.unwrap_or(FILLER)));
        }
    }
    if long {
        // land exactly on the target length when a character boundary allows it
        while s.len() > target {
            s.pop();
        }
        while s.len() < target {
            s.push('y');
        }
    }
    s
}

pub struct GenCfg {
    /// probability (out of 100) that some line ends with '\r'
    pub cr_percent: usize,
    pub allow_long_lines: bool,
    pub small: bool,
}

pub fn generate(seed: u64, cfg: &GenCfg) -> Scenario {
    let mut rng = Rng::new(seed);
    // patterns: non-empty, duplicate-free, no line breaks
    let many = !cfg.small && rng.chance(1, 10);
    // alphabet of a large set: dense (few letters, longer patterns: many states with several
    // children, several double-array blocks) or wide
    let many_alpha: &[&str] = match rng.below(3) {
        0 => &["a", "b", "c", "d"],
        1 => &["a", "b", "c", "d", "e", "é", "世", " "],
        _ => FILLER,
    };
    // a quarter of the large sets is really large: 300-600 patterns of 8-40 letters, i.e. several
    // thousand states, more than the 16 blocks the default builder keeps open at a time
    let huge = many && rng.chance(1, 4);
    const AZ: &[&str] = &["a", "b", "c", "d", "e", "f", "g", "h", "i", "j", "k", "l", "m", "n", "o", "p", "q", "r", "s", "t", "u", "v", "w", "x", "y", "z"];
    let many_alpha: &[&str] = if huge && rng.chance(1, 2) { AZ } else { many_alpha };
    let np = if cfg.small { rng.range(1, 4) } else if huge { rng.range(300, 600) } else if many { rng.range(40, 500) } else { rng.range(1, 12) };
    let mut patterns: Vec<String> = vec![];
    for _ in 0..np * 4 {
        if patterns.len() >= np {
            break;
        }
        let p = if many {
            // hundreds of patterns: the automaton of daacfind spans several blocks
            let n = if huge { rng.range(8, 40) } else if many_alpha.len() <= 8 { rng.range(2, 8) } else { rng.range(2, 5) };
            (0..n).map(|_| *rng.pick(many_alpha)).collect::<String>()
        } else if rng.chance(3, 4) {
            rng.pick(WORDS).to_string()
        } else {
            let n = rng.range(1, 4);
            (0..n).map(|_| *rng.pick(FILLER)).collect::<String>()
        };
        if !p.is_empty() && !patterns.contains(&p) {
            patterns.push(p);
        }
    }
    if !cfg.small && rng.chance(1, 60) {
        // one pattern longer than the buffers involved (1 KiB line writer, 8 KiB readers)
        let n = *rng.pick(&[1100usize, 2100, 8200, 9000]);
        let p: String = (0..n).map(|_| *rng.pick(&["a", "b", "c", "d"])).collect();
        patterns.push(p);
    }
    // how the patterns are passed
    let mut p_count = match rng.below(3) {
        0 => patterns.len(),
        1 => 0,
        _ => rng.below(patterns.len() + 1),
    };
    // an argument value starting with '-' would be taken for an option: send those through -f
    if p_count > 0 {
        patterns.sort_by_key(|p| p.starts_with('-') || p.contains('\0'));
        let bad = patterns.iter().filter(|p| p.starts_with('-') || p.contains('\0')).count();
        p_count = p_count.min(patterns.len() - bad);
    }
    let nfiles = if cfg.small { *rng.pick(&[0usize, 1, 1, 2]) } else { *rng.pick(&[0usize, 0, 1, 1, 1, 2, 2, 3, 3, 6]) };
    let cr_run = rng.below(100) < cfg.cr_percent;
    let mut long_budget = if cfg.allow_long_lines && rng.chance(1, 12) { 1 } else { 0 };
    let mut gen_lines = |rng: &mut Rng| -> Vec<String> {
        let n = if cfg.small {
            rng.range(0, 6)
        } else if many {
            // walk many of the automaton's paths
            rng.range(30, 90)
        } else {
            *rng.pick(&[0usize, 1, 2, 5, 5, 10, 20, 40, 0, 1, 2, 5, 5, 10, 20, 150, 1, 2, 5, 10, 20, 40, 5, 400])
        };
        (0..n)
            .map(|_| {
                let long = long_budget > 0 && rng.chance(1, 4);
                if long {
                    long_budget -= 1;
                }
                let mut l = gen_line(rng, &patterns, long, if many { Some(many_alpha) } else { None });
                if rng.chance(1, 40) {
                    l.insert(0, '\u{feff}');
                }
                if cr_run && rng.chance(1, 3) {
                    l.push('\r');
                }
                l
            })
            .collect()
    };
    let names = ["a.txt", "b.txt", "dir_c.txt", "0", "x:y.txt"];
    let mut files = vec![];
    for i in 0..nfiles {
        let base = names[rng.below(names.len())];
        let name = if i == 0 { base.to_string() } else { format!("{base}{i}") };
        files.push((name, gen_lines(&mut rng)));
    }
    let mut nofile_limit = 0u32;
    if !cfg.small && !many && rng.chance(1, 30) {
        // about a hundred small inputs under a descriptor limit of 64: an implementation may
        // keep a bounded pool of inputs open, but not all of them
        files.clear();
        for i in 0..rng.range(80, 110) {
            let n = rng.below(4);
            let lines: Vec<String> = (0..n).map(|_| gen_line(&mut rng, &patterns, false, None)).collect();
            files.push((format!("f{i:03}.txt"), lines));
        }
        nofile_limit = 64;
    }
    let mut tall_stdin: Option<Vec<String>> = None;
    if !cfg.small && !many && nofile_limit == 0 && rng.chance(1, 250) {
        // a tall input: more than 2^16 lines, matching lines on both sides of that boundary
        let n = rng.range(65_530, 66_200);
        let hit = gen_line(&mut rng, &patterns, false, None);
        let mut lines: Vec<String> = Vec::with_capacity(n);
        for i in 0..n {
            if i < 3 || i % 9973 == 0 || (65_533..65_540).contains(&i) || i + 2 >= n {
                lines.push(if rng.chance(2, 3) { patterns[rng.below(patterns.len())].clone() } else { hit.clone() });
            } else {
                lines.push(if i % 2 == 0 { "q".to_string() } else { String::new() });
            }
        }
        if files.is_empty() && rng.chance(1, 2) {
            tall_stdin = Some(lines);
        } else if files.is_empty() {
            files.push(("tall.txt".to_string(), lines));
        } else {
            let at = rng.below(files.len());
            files[at].1 = lines;
        }
    }
    if !cfg.small && !many && nofile_limit == 0 && rng.chance(1, 400) {
        // more than 256 input files
        files.clear();
        for i in 0..rng.range(257, 300) {
            let n = rng.below(3);
            let lines: Vec<String> = (0..n).map(|_| gen_line(&mut rng, &patterns, false, None)).collect();
            files.push((format!("m{i:03}.txt"), lines));
        }
    }
    let nfiles = files.len();
    let stdin_lines = if nfiles == 0 { tall_stdin.take().unwrap_or_else(|| gen_lines(&mut rng)) } else { vec![] };
    if !cfg.small && !many && rng.chance(1, 120) && !files.is_empty() {
        // deep overlap: a periodic pattern of 130-300 periods inside a longer run of the same
        // period: more than 127 (sometimes more than 255) reported matches cover one byte
        let unit = *rng.pick(&["=", "ab", "-", "xyx", "世"]);
        let k = *rng.pick(&[130usize, 200, 260, 300]);
        let p: String = unit.repeat(k);
        if !patterns.contains(&p) {
            patterns.push(p);
            let run: String = unit.repeat(k + rng.range(100, 400));
            let at = rng.below(files.len());
            let pos = rng.below(files[at].1.len() + 1);
            files[at].1.insert(pos, format!("q {run} q"));
        }
    }
    let dup_file = files.len() >= 1 && rng.chance(1, 12);
    let color = *rng.pick(&[Color::Default, Color::Never, Color::Always, Color::Always, Color::Always, Color::Auto]);
    if matches!(color, Color::Default | Color::Never) && rng.chance(1, 6) {
        // the input itself contains escape sequences; with colouring off they pass through
        let esc = *rng.pick(&["\u{1b}[31m", "\u{1b}[0m", "\u{1b}", "\u{1b}]0;t\u{7}"]);
        let all: Vec<&mut String> = files.iter_mut().flat_map(|f| f.1.iter_mut()).collect();
        let n = all.len();
        if n > 0 {
            let k = rng.below(n);
            for (i, l) in all.into_iter().enumerate() {
                if i == k && l.len() < 1000 {
                    let at = l.char_indices().map(|(i, _)| i).nth(rng.below(l.chars().count() + 1)).unwrap_or(l.len());
                    l.insert_str(at, esc);
                }
            }
        }
    }
    let term = rng.pick(&[None, Some("xterm-256color"), Some("dumb"), Some("xterm")]).map(|s| s.to_string());
    let profile = if rng.chance(1, 2) { Profile::Dev } else { Profile::Release };
    let mode = *rng.pick(&[Mode::FaultFree, Mode::Benign, Mode::Benign, Mode::Benign, Mode::Hard]);
    let mut sc = Scenario {
        profile,
        patterns,
        p_count,
        files,
        stdin_lines,
        flag_n: rng.chance(1, 2),
        flag_h: rng.chance(1, 3),
        color,
        color_eq: true, // the README spells it --color=WHEN; a grep-style optional WHEN would change the two-argument form
        term,
        no_color: rng.chance(1, 8),
        mode,
        sched: Sched::none(),
        pat_file_layout: if rng.chance(1, 3) { 1 } else { 0 },
        p_layout: 0,
        flag_style: if rng.chance(1, 3) { rng.below(6) as u8 } else { 0 },
        nofile_limit,
        pipe_inputs: false,
        stdin_consumed: vec![],
        threads_allowed: None,
        stdout_ino_alias: false,
    };
    if !cfg.small && !sc.files.is_empty() && rng.chance(1, 10) {
        sc.stdout_ino_alias = true;
    }
    if !cfg.small && rng.chance(1, 8) {
        sc.threads_allowed = Some(*rng.pick(&[0u32, 0, 1, 2, 3]));
    }
    // inputs that are not regular files (not with the same name twice: a FIFO is served once)
    let want_pipes = !cfg.small && rng.chance(1, 7) && sc.files.len() <= 8;
    if want_pipes && !(dup_file && mode != Mode::Hard) {
        sc.pipe_inputs = true;
    }
    if sc.files.is_empty() && !sc.pipe_inputs && !cfg.small && rng.chance(1, 4) {
        // the descriptor behind standard input was partly read by its previous owner
        let n = rng.range(1, 3);
        sc.stdin_consumed = (0..n).map(|_| gen_line(&mut rng, &sc.patterns, false, None)).collect();
    }
    if dup_file && mode != Mode::Hard && !sc.pipe_inputs {
        // the same file given twice (not with hard faults: the relaxed oracle identifies the
        // failing input by name)
        let f = sc.files[rng.below(sc.files.len())].clone();
        let at = rng.below(sc.files.len() + 1);
        sc.files.insert(at, f);
    }
    sc.sched = gen_sched(&mut rng, mode);
    let volume: usize = sc.files.iter().flat_map(|f| f.1.iter()).chain(sc.stdin_lines.iter()).map(|l| l.len() + 1).sum();
    if sc.files.iter().any(|f| f.1.len() > 60_000) || sc.stdin_lines.len() > 60_000 || volume > 100_000 {
        // a tall or voluminous input under a one-byte default would mean a million system calls
        // (a minute of wall clock for one run): keep the listed faults, let the rest pass
        sc.sched.read_default = Act::Pass;
        sc.sched.write_default = Act::Pass;
    }
    sc
}

pub fn gen_sched(rng: &mut Rng, mode: Mode) -> Sched {
    if mode == Mode::FaultFree {
        return Sched::none();
    }
    let shape = rng.below(4);
    let mut gen = |rng: &mut Rng, n: usize| -> Vec<Act> {
        (0..n)
            .map(|_| {
                let r = rng.below(100);
                match shape {
                    0 => {
                        // sparse faults
                        if r < 75 { Act::Pass } else if r < 90 { Act::Max(*rng.pick(&[1usize, 2, 3, 5, 17, 100])) } else { Act::Err(EINTR) }
                    }
                    1 => {
                        // dense short transfers
                        if r < 20 { Act::Pass } else if r < 85 { Act::Max(*rng.pick(&[1usize, 1, 2, 3, 4, 7, 64])) } else { Act::Err(EINTR) }
                    }
                    2 => {
                        // interrupt storms
                        if r < 40 { Act::Err(EINTR) } else if r < 70 { Act::Max(rng.range(1, 9)) } else { Act::Pass }
                    }
                    _ => Act::Max(rng.range(1, 3)),
                }
            })
            .collect()
    };
    let nr = rng.range(4, 48);
    let nw = rng.range(4, 48);
    let mut s = Sched {
        reads: gen(rng, nr),
        writes: gen(rng, nw),
        read_default: if rng.chance(1, 4) { Act::Max(*rng.pick(&[1usize, 2, 13])) } else { Act::Pass },
        write_default: if rng.chance(1, 4) { Act::Max(*rng.pick(&[1usize, 2, 13])) } else { Act::Pass },
    };
    if mode == Mode::Hard {
        if rng.chance(1, 2) {
            let i = rng.below(s.reads.len().min(12));
            // EIO: the medium; EAGAIN: a descriptor inherited in non-blocking mode whose writer is slow
            s.reads[i] = Act::Err(*rng.pick(&[EIO, EIO, EAGAIN]));
        } else {
            let i = rng.below(s.writes.len().min(12));
            s.writes[i] = Act::Err(*rng.pick(&[ENOSPC, EPIPE]));
        }
    }
    s
}

// ---------------------------------------------------------------------------------------
// minimisation

pub fn minimise(sc: &Scenario, class: &str, bins: &Bins, dir: &Path, known_crlf: bool) -> Scenario {
    // bounded: at most ~2 minutes of wall clock, shorter process time-out while shrinking a hang
    let deadline = Instant::now() + Duration::from_secs(120);
    let expired = move || Instant::now() > deadline;
    if class == "no-return" {
        PROCESS_TIMEOUT_S.with(|t| t.set(4));
        CONFIRM_HANGS.with(|c| c.set(false));
    }
    let fails = |c: &Scenario| -> bool {
        if c.patterns.is_empty() || Instant::now() > deadline {
            return false;
        }
        // entries with the same name are the same file on disk: never accept diverging copies
        for i in 0..c.files.len() {
            for j in 0..i {
                if c.files[j].0 == c.files[i].0 && c.files[j].1 != c.files[i].1 {
                    return false;
                }
            }
        }
        run(c, bins, dir, known_crlf).violation.map(|v| v.class == class).unwrap_or(false)
    };
    // remove items of a list in halving chunks first, then one by one
    fn chunked<T: Clone>(items: &[T], min_len: usize, test: &dyn Fn(&[T]) -> bool, test_expired: &dyn Fn() -> bool) -> Vec<T> {
        let mut cur: Vec<T> = items.to_vec();
        let mut chunk = (cur.len() / 2).max(1);
        loop {
            let mut i = 0;
            while i < cur.len() && cur.len() > min_len && !test_expired() {
                let end = (i + chunk).min(cur.len());
                if cur.len() - (end - i) < min_len {
                    i += chunk;
                    continue;
                }
                let mut cand = cur[..i].to_vec();
                cand.extend_from_slice(&cur[end..]);
                if test(&cand) {
                    cur = cand;
                } else {
                    i += chunk;
                }
            }
            if chunk == 1 || test_expired() {
                break;
            }
            chunk = (chunk / 2).max(1);
        }
        cur
    }
    let mut cur = sc.clone();
    for _round in 0..3 {
        if expired() {
            break;
        }
        let before = scenario_hash(&cur);
        if cur.patterns.len() > 8 {
            // all patterns through -f keeps the argument handling out of the way
            let base = cur.clone();
            let idx: Vec<usize> = (0..base.patterns.len()).collect();
            let keep = chunked(&idx, 1, &|ix: &[usize]| {
                let mut c = base.clone();
                c.patterns = ix.iter().map(|&i| base.patterns[i].clone()).collect();
                c.p_count = ix.iter().filter(|&&i| i < base.p_count).count();
                fails(&c)
            }, &expired);
            cur.patterns = keep.iter().map(|&i| base.patterns[i].clone()).collect();
            cur.p_count = keep.iter().filter(|&&i| i < base.p_count).count();
        }
        for f in 0..cur.files.len() {
            if cur.files[f].1.len() > 8 {
                let base = cur.clone();
                let keep = chunked(&base.files[f].1, 0, &|ls: &[String]| {
                    let mut c = base.clone();
                    c.files[f].1 = ls.to_vec();
                    fails(&c)
                }, &expired);
                cur.files[f].1 = keep;
            }
        }
        if cur.stdin_lines.len() > 8 {
            let base = cur.clone();
            let keep = chunked(&base.stdin_lines, 0, &|ls: &[String]| {
                let mut c = base.clone();
                c.stdin_lines = ls.to_vec();
                fails(&c)
            }, &expired);
            cur.stdin_lines = keep;
        }
        // faults first: without them the failure is an input failure
        for which in 0..2 {
            let mut c = cur.clone();
            if which == 0 {
                c.sched = Sched::none();
            } else {
                c.sched.read_default = Act::Pass;
                c.sched.write_default = Act::Pass;
            }
            if fails(&c) {
                cur = c;
            }
        }
        let mut i = 0;
        while i < cur.sched.reads.len() && !expired() {
            let mut c = cur.clone();
            if c.sched.reads[i] != Act::Pass {
                c.sched.reads[i] = Act::Pass;
                if fails(&c) {
                    cur = c;
                }
            }
            i += 1;
        }
        let mut i = 0;
        while i < cur.sched.writes.len() && !expired() {
            let mut c = cur.clone();
            if c.sched.writes[i] != Act::Pass {
                c.sched.writes[i] = Act::Pass;
                if fails(&c) {
                    cur = c;
                }
            }
            i += 1;
        }
        while cur.sched.reads.last() == Some(&Act::Pass) {
            cur.sched.reads.pop();
        }
        while cur.sched.writes.last() == Some(&Act::Pass) {
            cur.sched.writes.pop();
        }
        // files
        let mut f = 0;
        while f < cur.files.len() && cur.files.len() > 1 && !expired() {
            let mut c = cur.clone();
            c.files.remove(f);
            if fails(&c) { cur = c; } else { f += 1; }
        }
        // lines
        for f in 0..cur.files.len() {
            let mut i = 0;
            while i < cur.files[f].1.len() && !expired() {
                let mut c = cur.clone();
                c.files[f].1.remove(i);
                if fails(&c) { cur = c; } else { i += 1; }
            }
        }
        let mut i = 0;
        while i < cur.stdin_lines.len() && !expired() {
            let mut c = cur.clone();
            c.stdin_lines.remove(i);
            if fails(&c) { cur = c; } else { i += 1; }
        }
        // patterns
        let mut i = 0;
        while i < cur.patterns.len() && cur.patterns.len() > 1 && !expired() {
            let mut c = cur.clone();
            c.patterns.remove(i);
            if i < c.p_count {
                c.p_count -= 1;
            }
            if fails(&c) { cur = c; } else { i += 1; }
        }
        // shorten lines character by character (from the end, then from the front)
        let shrink = |cur: &mut Scenario, get: &dyn Fn(&mut Scenario) -> &mut String| {
            loop {
                let mut c = cur.clone();
                let s = get(&mut c);
                if s.pop().is_none() {
                    break;
                }
                if fails(&c) { *cur = c; } else { break; }
            }
            loop {
                let mut c = cur.clone();
                let s = get(&mut c);
                if s.is_empty() {
                    break;
                }
                s.remove(0);
                if fails(&c) { *cur = c; } else { break; }
            }
        };
        for f in 0..cur.files.len() {
            for i in 0..cur.files[f].1.len() {
                if expired() {
                    break;
                }
                shrink(&mut cur, &|c: &mut Scenario| &mut c.files[f].1[i]);
            }
        }
        for i in 0..cur.stdin_lines.len() {
            if expired() {
                break;
            }
            shrink(&mut cur, &|c: &mut Scenario| &mut c.stdin_lines[i]);
        }
        // flags
        for k in 0..11 {
            let mut c = cur.clone();
            match k {
                7 => c.pipe_inputs = false,
                8 => c.stdin_consumed.clear(),
                9 => c.threads_allowed = None,
                10 => c.stdout_ino_alias = false,
                5 => {
                    c.pat_file_layout = 0;
                    c.flag_style = 0;
                    c.nofile_limit = 0;
                }
                6 => c.p_layout = 0,
                0 => c.flag_n = false,
                1 => c.flag_h = false,
                2 => c.no_color = false,
                3 => c.term = None,
                _ => {
                    if c.color == Color::Auto { c.color = Color::Always } else if c.color == Color::Default { c.color = Color::Never }
                }
            }
            if c != cur && fails(&c) {
                cur = c;
            }
        }
        if scenario_hash(&cur) == before {
            break;
        }
    }
    PROCESS_TIMEOUT_S.with(|t| t.set(20));
    CONFIRM_HANGS.with(|c| c.set(true));
    cur
}
