//! E2-colossal — order independence of construction (C14) at the scale where NFA state ids pass
//! 2^24: a handful of very long filler patterns bring the trie to 2^24 - r states (r = 0..3), a
//! family of short patterns that are suffixes of each other is spread around them, and the same
//! pairs are built in two orders. Plain seeded sampling like the permutation sampler; a separate
//! step because one build takes seconds and gigabytes.

use std::time::Instant;

use serde::{Deserialize, Serialize};
use serde_json::json;

use crate::batch::{arg, arg_u64, harness_error};
use crate::pma::{Entry, Kind, Spec, VType, Variant};
use crate::rng::Rng;

pub const ENGINE_ID: u64 = 9;
const TARGET: usize = 1 << 24;

#[derive(Clone, Debug, Serialize, Deserialize)]
pub struct Colossal {
    pub kind: Kind,
    pub variant: Variant,
    /// short patterns (bytes) in their first order
    pub short: Vec<String>,
    /// how many of the short patterns come before the fillers in the first order
    pub short_before: usize,
    /// (byte, length) of the single-letter filler patterns
    pub fillers: Vec<(u8, usize)>,
}

fn trie_states(pats: &[Vec<u8>]) -> usize {
    let mut set = std::collections::BTreeSet::new();
    for p in pats {
        for i in 1..=p.len() {
            set.insert(p[..i].to_vec());
        }
    }
    set.len()
}

pub fn generate(seed: u64) -> Colossal {
    let mut rng = Rng::new(seed);
    // families of patterns that are suffixes of each other: the failure links of the long ones
    // lead to the short ones, whose states are created late (high ids) in one of the two orders
    let families: &[&[&str]] = &[
        &["a", "ya", "xya"],
        &["ab", "yab", "xyab", "b"],
        &["yad", "xyac", "ab", "d"],
        &["q", "pq", "rpq", "srpq"],
        &["ya", "zya", "a", "wzya", "y"],
    ];
    let fam = *rng.pick(families);
    let mut short: Vec<String> = fam.iter().map(|s| s.to_string()).collect();
    let short_before;
    if rng.chance(1, 2) {
        // deliberate: the longest and the shortest pattern come before the fillers, the suffixes
        // in between after them - their states are the failure targets of the longest pattern's
        // states and get the highest ids
        short.sort_by_key(|p| p.len());
        let longest = short.pop().unwrap();
        let shortest = short.remove(0);
        rng.shuffle(&mut short);
        let mut v = vec![shortest, longest];
        if rng.chance(1, 2) {
            v.reverse();
        }
        short_before = v.len();
        v.extend(short);
        short = v;
    } else {
        rng.shuffle(&mut short);
        short_before = rng.below(short.len());
    }
    let nf = rng.range(8, 12);
    let before: Vec<Vec<u8>> = short[..short_before].iter().map(|s| s.as_bytes().to_vec()).collect();
    let all: Vec<Vec<u8>> = short.iter().map(|s| s.as_bytes().to_vec()).collect();
    // State ids are handed out in insertion order (0 = root, 1 = the dead state). The t-th state
    // created by the short patterns that follow the fillers gets the id 2^24 exactly.
    let n_new = trie_states(&all) - trie_states(&before);
    // the new states in creation order, with their depth
    let mut seen = std::collections::BTreeSet::new();
    for p in &before {
        for i in 1..=p.len() {
            seen.insert(p[..i].to_vec());
        }
    }
    let mut new_depths = vec![];
    for p in &all[short_before..] {
        for i in 1..=p.len() {
            if seen.insert(p[..i].to_vec()) {
                new_depths.push(i);
            }
        }
    }
    let depth1: Vec<usize> = new_depths.iter().enumerate().filter(|(_, d)| **d == 1).map(|(i, _)| i).collect();
    // half of the time the id 2^24 (whose low 24 bits are those of the root) goes to a state
    // directly below the root
    let t = if !depth1.is_empty() && rng.chance(1, 2) { *rng.pick(&depth1) } else { rng.below(n_new + 2) };
    let need = TARGET - t - 2 - trie_states(&before);
    let base = need / nf;
    let mut fillers: Vec<(u8, usize)> = (0..nf).map(|i| (b'0' + i as u8, base)).collect();
    fillers[0].1 += need - base * nf;
    Colossal { kind: *rng.pick(&[Kind::Standard, Kind::Standard, Kind::LeftmostLongest]), variant: Variant::Bytewise, short, short_before, fillers }
}

fn spec_in_order(c: &Colossal, second: bool) -> Spec {
    let mut pats: Vec<Vec<u8>> = vec![];
    let shorts: Vec<Vec<u8>> = c.short.iter().map(|s| s.as_bytes().to_vec()).collect();
    let fill: Vec<Vec<u8>> = c.fillers.iter().map(|(b, n)| vec![*b; *n]).collect();
    let mut values: Vec<u64> = vec![];
    // value = identity of the pair, whatever its position
    let id_short = |i: usize| i as u64;
    let id_fill = |i: usize| 1000 + i as u64;
    if !second {
        for i in 0..c.short_before {
            pats.push(shorts[i].clone());
            values.push(id_short(i));
        }
        for (i, f) in fill.iter().enumerate() {
            pats.push(f.clone());
            values.push(id_fill(i));
        }
        for i in c.short_before..shorts.len() {
            pats.push(shorts[i].clone());
            values.push(id_short(i));
        }
    } else {
        // the other order: what came after the fillers now comes first, the fillers reversed
        for i in (c.short_before..shorts.len()).rev() {
            pats.push(shorts[i].clone());
            values.push(id_short(i));
        }
        for i in 0..c.short_before {
            pats.push(shorts[i].clone());
            values.push(id_short(i));
        }
        for (i, f) in fill.iter().enumerate().rev() {
            pats.push(f.clone());
            values.push(id_fill(i));
        }
    }
    Spec { variant: c.variant, kind: c.kind, num_free_blocks: crate::pma::DEFAULT_NFB, entry: Entry::WithValues, vtype: VType::U32, patterns: pats, values, ctor: false }
}

/// Returns Ok((states, image bytes)) or the description of a difference.
pub fn run(c: &Colossal) -> Result<(usize, usize), String> {
    let a = crate::pma::build(&spec_in_order(c, false)).map_err(|e| format!("harness: colossal build failed: {e}"))?;
    let img_a = a.serialize();
    let (states, _) = a.stats();
    // searches of a text that walks the short family (the answers must not depend on the order either)
    let text: Vec<u8> = c.short.iter().flat_map(|s| s.bytes().chain(std::iter::once(b' '))).collect();
    let method = if c.kind == Kind::Standard { crate::pma::Method::Overlapping } else { crate::pma::Method::Leftmost };
    let found_a = crate::pma::search(&*a, method, &text);
    drop(a);
    let b = crate::pma::build(&spec_in_order(c, true)).map_err(|e| format!("harness: colossal build failed: {e}"))?;
    let img_b = b.serialize();
    let found_b = crate::pma::search(&*b, method, &text);
    if img_a != img_b {
        return Err(format!(
            "the same {} pattern/value pairs ({} NFA states) given in two orders serialise differently ({} vs {} bytes); searching {:?} gives {:?} / {:?}",
            c.short.len() + c.fillers.len(), states, img_a.len(), img_b.len(), String::from_utf8_lossy(&text), found_a, found_b
        ));
    }
    Ok((states, img_a.len()))
}

pub fn cli(args: &[String]) -> i32 {
    let seed = arg_u64(args, "--seed", 1);
    let runs = arg_u64(args, "--runs", 1);
    let out = arg(args, "--out").unwrap_or("/verif/.work/colossal.json").to_string();
    let replay_dir = arg(args, "--replay-dir").unwrap_or("/verif/replays").to_string();
    let t0 = Instant::now();
    println!("engine=colossal seed={seed} runs={runs}");
    let mut done = 0u64;
    let mut samples = vec![];
    let mut fail: Option<(u64, u64, Colossal, String)> = None;
    let mut max_states = 0usize;
    for k in 0..runs {
        let rs = crate::rng::mix(seed, ENGINE_ID, k);
        let c = generate(rs);
        match std::panic::catch_unwind(std::panic::AssertUnwindSafe(|| run(&c))) {
            Ok(Ok((states, bytes))) => {
                done += 1;
                max_states = max_states.max(states);
                if samples.len() < 2 {
                    samples.push(json!({"run": k, "run_seed": rs, "kind": c.kind, "short": c.short, "short_before_fillers": c.short_before, "fillers": c.fillers, "states": states, "image_bytes": bytes}));
                }
            }
            Ok(Err(d)) => {
                if d.starts_with("harness:") {
                    harness_error(&d);
                }
                fail = Some((k, rs, c, d));
                break;
            }
            Err(p) => {
                // construction panicked in one of the two orders
                fail = Some((k, rs, c, format!("construction panicked: {}", crate::panic_message(&p))));
                break;
            }
        }
    }
    let mut replay = None;
    if let Some((k, rs, c, d)) = &fail {
        eprintln!("colossal run {k} violated C14: {d}");
        let path = format!("{replay_dir}/C14-colossal-{seed}-{k}.json");
        let doc = json!({"engine": "colossal", "property": "C14", "class": "build-order-dependent", "verif_seed": seed, "run": k, "run_seed": rs, "detail": d, "scenario": c});
        std::fs::create_dir_all(&replay_dir).ok();
        std::fs::write(&path, serde_json::to_string_pretty(&doc).unwrap()).unwrap_or_else(|e| harness_error(&format!("write {path}: {e}")));
        replay = Some(path);
    }
    let wall = t0.elapsed().as_secs_f64();
    let doc = json!({"engine": "E2-colossal", "seed": seed, "runs": done + if fail.is_some() { 1 } else { 0 }, "evaluations": done + if fail.is_some() { 1 } else { 0 },
        "largest_automaton_states": max_states, "samples": samples, "wall_s": wall, "violations": if fail.is_some() { 1 } else { 0 }, "replay": replay});
    if let Some(dir) = std::path::Path::new(&out).parent() {
        std::fs::create_dir_all(dir).ok();
    }
    std::fs::write(&out, serde_json::to_string_pretty(&doc).unwrap()).unwrap_or_else(|e| harness_error(&format!("write {out}: {e}")));
    println!("colossal: {done} pattern sets of about 2^24 NFA states built in two orders in {wall:.1}s (largest automaton: {max_states} states)");
    if let Some(p) = replay {
        println!("VIOLATION property=C14 replay={p}");
        return 1;
    }
    0
}

pub fn replay(doc: &serde_json::Value) -> i32 {
    let c: Colossal = serde_json::from_value(doc["scenario"].clone()).unwrap_or_else(|e| harness_error(&format!("replay file: bad scenario: {e}")));
    match std::panic::catch_unwind(std::panic::AssertUnwindSafe(|| run(&c))) {
        Ok(Ok(_)) => {
            println!("replayed: no violation");
            0
        }
        Ok(Err(d)) => {
            println!("replayed: [build-order-dependent] {d}");
            1
        }
        Err(p) => {
            println!("replayed: [build-order-dependent] construction panicked: {}", crate::panic_message(&p));
            1
        }
    }
}
