//! A uniform, dynamically typed face over the two automaton variants and the supported
//! value types, so that a scenario (plain data) can pick any of them at run time.
//! Every method here calls straight into daachorse's public API; nothing is re-implemented.

use std::sync::Arc;

use daachorse::{
    CharwiseDoubleArrayAhoCorasick, CharwiseDoubleArrayAhoCorasickBuilder, DoubleArrayAhoCorasick,
    DoubleArrayAhoCorasickBuilder, Empty, Match, MatchKind, Serializable,
};
use serde::{Deserialize, Serialize};

#[derive(Clone, Copy, Debug, PartialEq, Eq, Hash, Serialize, Deserialize)]
pub enum Variant {
    Bytewise,
    Charwise,
}

#[derive(Clone, Copy, Debug, PartialEq, Eq, Hash, Serialize, Deserialize)]
pub enum Kind {
    Standard,
    LeftmostLongest,
    LeftmostFirst,
}

impl Kind {
    pub fn mk(self) -> MatchKind {
        match self {
            Kind::Standard => MatchKind::Standard,
            Kind::LeftmostLongest => MatchKind::LeftmostLongest,
            Kind::LeftmostFirst => MatchKind::LeftmostFirst,
        }
    }
}

#[derive(Clone, Copy, Debug, PartialEq, Eq, Hash, Serialize, Deserialize)]
pub enum VType {
    U8,
    U16,
    U32,
    U64,
    U128,
    I32,
    I128,
    Usize,
    Empty,
    I8,
    I16,
    I64,
    Isize,
}

pub const ALL_VTYPES: [VType; 13] = [
    VType::U8,
    VType::U16,
    VType::U32,
    VType::U64,
    VType::U128,
    VType::I32,
    VType::I128,
    VType::Usize,
    VType::Empty,
    VType::I8,
    VType::I16,
    VType::I64,
    VType::Isize,
];

#[derive(Clone, Copy, Debug, PartialEq, Eq, Hash, Serialize, Deserialize)]
pub enum Method {
    Find,
    Overlapping,
    NoSuffix,
    Leftmost,
}

pub const STD_METHODS: [Method; 3] = [Method::Find, Method::Overlapping, Method::NoSuffix];

/// `build(patterns)` (values are the input positions) or `build_with_values(pairs)`.
#[derive(Clone, Copy, Debug, PartialEq, Eq, Hash, Serialize, Deserialize)]
pub enum Entry {
    Indices,
    WithValues,
}

/// Everything needed to construct one automaton. Patterns are raw bytes (valid UTF-8 when
/// `variant == Charwise`); values are stored widened and narrowed by `SimVal::from_raw`.
#[derive(Clone, Debug, PartialEq, Eq, Hash, Serialize, Deserialize)]
pub struct Spec {
    pub variant: Variant,
    pub kind: Kind,
    pub num_free_blocks: u32,
    pub entry: Entry,
    pub vtype: VType,
    pub patterns: Vec<Vec<u8>>,
    /// Parallel to `patterns`; ignored for `Entry::Indices`.
    pub values: Vec<u64>,
    /// build through the convenience constructors `new` / `with_values` of the automaton type
    /// instead of the builder (only honoured for the settings those imply: standard kind,
    /// default number of free blocks)
    #[serde(default)]
    pub ctor: bool,
}

pub const DEFAULT_NFB: u32 = 16;

/// A match with the value widened so that all value types compare alike.
#[derive(Clone, Copy, Debug, PartialEq, Eq, Hash, Serialize, Deserialize)]
pub struct Mt {
    pub s: usize,
    pub e: usize,
    pub v: u128,
}

pub trait SimVal: Copy + Send + Sync + 'static + Serializable + TryFrom<usize> {
    fn from_raw(x: u64) -> Self;
    fn to_raw(self) -> u128;
    fn bw_eq(a: &DoubleArrayAhoCorasick<Self>, b: &DoubleArrayAhoCorasick<Self>) -> bool;
    fn cw_eq(
        a: &CharwiseDoubleArrayAhoCorasick<Self>,
        b: &CharwiseDoubleArrayAhoCorasick<Self>,
    ) -> bool;
}

macro_rules! simval_int {
    ($t:ty) => {
        impl SimVal for $t {
            fn from_raw(x: u64) -> Self {
                // 0, MAX and small numbers all occur: the generator produces raw values
                // 0, u64::MAX and arbitrary ones; narrowing keeps the low bits, and MAX maps
                // to the type's all-ones pattern.
                x as $t
            }
            fn to_raw(self) -> u128 {
                self as u128
            }
            fn bw_eq(a: &DoubleArrayAhoCorasick<Self>, b: &DoubleArrayAhoCorasick<Self>) -> bool {
                a == b
            }
            fn cw_eq(
                a: &CharwiseDoubleArrayAhoCorasick<Self>,
                b: &CharwiseDoubleArrayAhoCorasick<Self>,
            ) -> bool {
                a == b
            }
        }
    };
}
simval_int!(u8);
simval_int!(u16);
simval_int!(u32);
simval_int!(u64);
simval_int!(u128);
simval_int!(i32);
simval_int!(i128);
simval_int!(usize);
simval_int!(i8);
simval_int!(i16);
simval_int!(i64);
simval_int!(isize);

impl SimVal for Empty {
    fn from_raw(_x: u64) -> Self {
        Empty
    }
    fn to_raw(self) -> u128 {
        0
    }
    // `Empty` has no `PartialEq`, hence the automaton has none either: fall back to the image.
    fn bw_eq(a: &DoubleArrayAhoCorasick<Self>, b: &DoubleArrayAhoCorasick<Self>) -> bool {
        a.serialize() == b.serialize()
    }
    fn cw_eq(
        a: &CharwiseDoubleArrayAhoCorasick<Self>,
        b: &CharwiseDoubleArrayAhoCorasick<Self>,
    ) -> bool {
        a.serialize() == b.serialize()
    }
}

fn mt<V: SimVal>(m: Match<V>) -> Mt {
    Mt {
        s: m.start(),
        e: m.end(),
        v: m.value().to_raw(),
    }
}

/// A haystack whose `as_ref()` runs a hook first. daachorse's slice iterators call
/// `as_ref()` once per byte (standard kinds) or once per `next()` (leftmost), which makes
/// the hook a per-byte scheduling point owned by the simulator.
#[derive(Clone)]
pub struct Hay {
    pub bytes: Arc<[u8]>,
    pub hook: fn(),
}

impl Hay {
    pub fn plain(b: &[u8]) -> Self {
        Hay {
            bytes: Arc::from(b),
            hook: || {},
        }
    }
    pub fn hooked(b: &[u8], hook: fn()) -> Self {
        Hay {
            bytes: Arc::from(b),
            hook,
        }
    }
}

impl AsRef<[u8]> for Hay {
    fn as_ref(&self) -> &[u8] {
        (self.hook)();
        &self.bytes
    }
}

impl AsRef<str> for Hay {
    fn as_ref(&self) -> &str {
        (self.hook)();
        // Only constructed from valid UTF-8 for the char-wise variant (checked by `dyn_search`).
        unsafe { std::str::from_utf8_unchecked(&self.bytes) }
    }
}

/// A haystack that stores its bytes inline and is handed to the search by value (what
/// `[u8; N]` or an inline small-string type is to a caller): moving the search iterator moves
/// the bytes with it.
#[derive(Clone, Copy)]
pub struct InlineHay {
    pub buf: [u8; INLINE_MAX],
    pub len: usize,
}

pub const INLINE_MAX: usize = 64;

impl InlineHay {
    pub fn new(b: &[u8]) -> Option<Self> {
        if b.len() > INLINE_MAX {
            return None;
        }
        let mut buf = [0u8; INLINE_MAX];
        buf[..b.len()].copy_from_slice(b);
        Some(InlineHay { buf, len: b.len() })
    }
}

impl AsRef<[u8]> for InlineHay {
    fn as_ref(&self) -> &[u8] {
        &self.buf[..self.len]
    }
}

impl AsRef<str> for InlineHay {
    fn as_ref(&self) -> &str {
        // Only constructed from valid UTF-8 for the char-wise variant (asserted by the caller).
        unsafe { std::str::from_utf8_unchecked(&self.buf[..self.len]) }
    }
}

/// Overwrite the part of the stack a just-returned call used (so that nothing read from there
/// later is right by accident).
#[inline(never)]
pub fn scribble_stack() {
    let mut junk = [0xA5u8; 2048];
    std::hint::black_box(&mut junk);
}

/// How a caller takes the matches out of a search iterator: `pre` calls of `next()` first, then
/// one of the other `Iterator` methods. Both entry points are consumed the same way and must
/// give the same answer.
pub const N_STYLES: u8 = 16;

#[derive(Clone, Debug, PartialEq, Eq)]
pub struct Consumed {
    pub pre: Vec<Mt>,
    pub rest: Vec<Mt>,
    pub n: usize,
}

pub fn style_name(style: u8) -> &'static str {
    match style % N_STYLES {
        0 => "fold",
        1 => "count",
        2 => "last",
        3 => "for_each",
        4 => "nth(1) loop",
        5 => "skip(1).fold",
        6 => "by_ref().take(2).fold, then next()",
        7 => "size_hint, then fold",
        8 => "step_by(2).for_each",
        9 => "move the iterator to the heap, then next()",
        10 => "collect into a LinkedList",
        11 => "VecDeque::extend",
        12 => "max_by_key",
        13 => "by_ref().filter().count(), then collect",
        14 => "partition",
        _ => "peekable, peek, collect",
    }
}

/// `$it` is the library's own iterator type (no adaptor in between: `Map` forwards `fold` but
/// not `for_each`, `count`, `last`, `nth` to what it wraps) and this is a macro, not a generic
/// function: the methods are called with plain method-call syntax on the concrete type, the way
/// user code does, so that an inherent method shadowing a trait method is reached as well.
/// `$conv` widens each match.
macro_rules! consume {
    ($it:expr, $conv:expr, $pre:expr, $style:expr) => {{
        #[allow(unused_mut)]
        let mut it = $it;
        let conv = $conv;
        let pre: usize = $pre;
        let style: u8 = $style;
        let mut c = $crate::pma::Consumed { pre: vec![], rest: vec![], n: 0 };
        'done: {
            for _ in 0..pre {
                match it.next() {
                    Some(m) => c.pre.push(conv(m)),
                    None => break 'done,
                }
            }
            match style % $crate::pma::N_STYLES {
                0 => {
                    c.rest = it.fold(vec![], |mut v, m| {
                        v.push(conv(m));
                        v
                    });
                    c.n = c.rest.len();
                }
                1 => c.n = it.count(),
                2 => {
                    c.rest = it.last().map(&conv).into_iter().collect();
                }
                3 => {
                    let mut v = vec![];
                    it.for_each(|m| v.push(conv(m)));
                    c.n = v.len();
                    c.rest = v;
                }
                4 => {
                    while let Some(m) = it.nth(1) {
                        c.rest.push(conv(m));
                    }
                }
                5 => {
                    c.rest = it.skip(1).fold(vec![], |mut v, m| {
                        v.push(conv(m));
                        v
                    });
                }
                6 => {
                    c.rest = it.by_ref().take(2).fold(vec![], |mut v, m| {
                        v.push(conv(m));
                        v
                    });
                    for m in it {
                        c.rest.push(conv(m));
                        c.n += 1;
                    }
                }
                7 => {
                    let _ = it.size_hint();
                    c.rest = it.fold(vec![], |mut v, m| {
                        v.push(conv(m));
                        v
                    });
                }
                8 => {
                    let mut v = vec![];
                    it.step_by(2).for_each(|m| v.push(conv(m)));
                    c.rest = v;
                }
                9 => {
                    // the search iterator changes its address between two calls
                    let mut moved = Box::new(it);
                    $crate::pma::scribble_stack();
                    while let Some(m) = moved.next() {
                        c.rest.push(conv(m));
                    }
                }
                10 => {
                    // collections that are filled through for_each / fold rather than next()
                    let l: std::collections::LinkedList<_> = it.collect();
                    c.rest = l.into_iter().map(&conv).collect();
                }
                11 => {
                    let mut d: std::collections::VecDeque<$crate::pma::Mt> = Default::default();
                    d.extend(it.map(&conv));
                    c.rest = d.into_iter().collect();
                }
                12 => {
                    // max_by_key / min_by_key go through fold / reduce
                    c.rest = it.max_by_key(|_| 0u8).map(&conv).into_iter().collect();
                }
                13 => {
                    c.n = it.by_ref().filter(|_| true).count();
                    c.rest = it.map(&conv).collect();
                }
                14 => {
                    let (x, y): (Vec<_>, Vec<_>) = it.partition(|_| true);
                    c.rest = x.into_iter().chain(y).map(&conv).collect();
                }
                _ => {
                    let mut p = it.peekable();
                    let _ = p.peek();
                    c.rest = p.map(&conv).collect();
                }
            }
        }
        c
    }};
}
pub(crate) use consume;

pub type ByteSrc<'a> = Box<dyn Iterator<Item = u8> + 'a>;
pub type MatchIter<'a> = Box<dyn Iterator<Item = Mt> + 'a>;

pub trait DynPma: Send + Sync {
    fn variant(&self) -> Variant;
    /// Lazy slice search.
    fn open_slice<'a>(&'a self, m: Method, hay: Hay) -> MatchIter<'a>;
    /// Lazy byte-iterator search (standard kind only). For the char-wise variant the caller
    /// guarantees that the source yields valid UTF-8.
    fn open_iter<'a>(&'a self, m: Method, src: ByteSrc<'a>) -> MatchIter<'a>;
    /// Slice search of a haystack that is stored inline and passed by value.
    fn open_slice_inline<'a>(&'a self, m: Method, hay: InlineHay) -> MatchIter<'a>;
    /// Slice / byte-iterator search consumed through `consume` on the concrete iterator type
    /// (a boxed iterator would hide overridden `fold`, `count`, `nth`, ...).
    /// `inline`: pass the bytes by value in an inline container when they fit.
    fn consume_slice(&self, m: Method, hay: Hay, inline: bool, pre: usize, style: u8) -> Consumed;
    fn consume_iter(&self, m: Method, src: ByteSrc<'_>, pre: usize, style: u8) -> Consumed;
    fn serialize(&self) -> Vec<u8>;
    fn same(&self, other: &dyn DynPma) -> bool;
    fn clone_box(&self) -> Box<dyn DynPma>;
    fn stats(&self) -> (usize, usize);
    /// Serialise, deserialise, and return the restored automaton plus the number of
    /// unconsumed trailing bytes.
    fn roundtrip(&self, trailing: &[u8]) -> (Box<dyn DynPma>, usize);
    fn as_any(&self) -> &dyn std::any::Any;
}

pub fn search(p: &dyn DynPma, m: Method, hay: &[u8]) -> Vec<Mt> {
    p.open_slice(m, Hay::plain(hay)).collect()
}

struct Bw<V: SimVal>(DoubleArrayAhoCorasick<V>);
struct Cw<V: SimVal>(CharwiseDoubleArrayAhoCorasick<V>);

impl<V: SimVal> DynPma for Bw<V> {
    fn variant(&self) -> Variant {
        Variant::Bytewise
    }
    fn open_slice<'a>(&'a self, m: Method, hay: Hay) -> MatchIter<'a> {
        match m {
            Method::Find => Box::new(self.0.find_iter(hay).map(mt)),
            Method::Overlapping => Box::new(self.0.find_overlapping_iter(hay).map(mt)),
            Method::NoSuffix => Box::new(self.0.find_overlapping_no_suffix_iter(hay).map(mt)),
            Method::Leftmost => Box::new(self.0.leftmost_find_iter(hay).map(mt)),
        }
    }
    fn open_iter<'a>(&'a self, m: Method, src: ByteSrc<'a>) -> MatchIter<'a> {
        match m {
            Method::Find => Box::new(self.0.find_iter_from_iter(src).map(mt)),
            Method::Overlapping => Box::new(self.0.find_overlapping_iter_from_iter(src).map(mt)),
            Method::NoSuffix => {
                Box::new(self.0.find_overlapping_no_suffix_iter_from_iter(src).map(mt))
            }
            Method::Leftmost => panic!("harness: no byte-iterator entry point for leftmost"),
        }
    }
    fn open_slice_inline<'a>(&'a self, m: Method, hay: InlineHay) -> MatchIter<'a> {
        let it: MatchIter<'a> = match m {
            Method::Find => Box::new(self.0.find_iter(hay).map(mt)),
            Method::Overlapping => Box::new(self.0.find_overlapping_iter(hay).map(mt)),
            Method::NoSuffix => Box::new(self.0.find_overlapping_no_suffix_iter(hay).map(mt)),
            Method::Leftmost => Box::new(self.0.leftmost_find_iter(hay).map(mt)),
        };
        scribble_stack();
        it
    }
    fn consume_slice(&self, m: Method, hay: Hay, inline: bool, pre: usize, style: u8) -> Consumed {
        if let (true, Some(hay)) = (inline, InlineHay::new(&hay.bytes)) {
            return match m {
                Method::Find => consume!(self.0.find_iter(hay), mt, pre, style),
                Method::Overlapping => consume!(self.0.find_overlapping_iter(hay), mt, pre, style),
                Method::NoSuffix => consume!(self.0.find_overlapping_no_suffix_iter(hay), mt, pre, style),
                Method::Leftmost => consume!(self.0.leftmost_find_iter(hay), mt, pre, style),
            };
        }
        match m {
            Method::Find => consume!(self.0.find_iter(hay), mt, pre, style),
            Method::Overlapping => consume!(self.0.find_overlapping_iter(hay), mt, pre, style),
            Method::NoSuffix => consume!(self.0.find_overlapping_no_suffix_iter(hay), mt, pre, style),
            Method::Leftmost => consume!(self.0.leftmost_find_iter(hay), mt, pre, style),
        }
    }
    fn consume_iter(&self, m: Method, src: ByteSrc<'_>, pre: usize, style: u8) -> Consumed {
        {
            match m {
                Method::Find => consume!(self.0.find_iter_from_iter(src), mt, pre, style),
                Method::Overlapping => consume!(self.0.find_overlapping_iter_from_iter(src), mt, pre, style),
                Method::NoSuffix => consume!(self.0.find_overlapping_no_suffix_iter_from_iter(src), mt, pre, style),
                Method::Leftmost => panic!("harness: no byte-iterator entry point for leftmost"),
            }
        }
    }
    fn serialize(&self) -> Vec<u8> {
        self.0.serialize()
    }
    fn same(&self, other: &dyn DynPma) -> bool {
        match other.as_any().downcast_ref::<Bw<V>>() {
            Some(o) => V::bw_eq(&self.0, &o.0),
            None => false,
        }
    }
    fn clone_box(&self) -> Box<dyn DynPma> {
        Box::new(Bw(self.0.clone()))
    }
    fn stats(&self) -> (usize, usize) {
        (self.0.num_states(), self.0.heap_bytes())
    }
    fn roundtrip(&self, trailing: &[u8]) -> (Box<dyn DynPma>, usize) {
        let mut b = self.0.serialize();
        b.extend_from_slice(trailing);
        let (p, rest) = unsafe { DoubleArrayAhoCorasick::<V>::deserialize_unchecked(&b) };
        (Box::new(Bw(p)), rest.len())
    }
    fn as_any(&self) -> &dyn std::any::Any {
        self
    }
}

impl<V: SimVal> DynPma for Cw<V> {
    fn variant(&self) -> Variant {
        Variant::Charwise
    }
    fn open_slice<'a>(&'a self, m: Method, hay: Hay) -> MatchIter<'a> {
        assert!(
            std::str::from_utf8(&hay.bytes).is_ok(),
            "harness: char-wise haystack must be UTF-8"
        );
        match m {
            Method::Find => Box::new(self.0.find_iter(hay).map(mt)),
            Method::Overlapping => Box::new(self.0.find_overlapping_iter(hay).map(mt)),
            Method::NoSuffix => Box::new(self.0.find_overlapping_no_suffix_iter(hay).map(mt)),
            Method::Leftmost => Box::new(self.0.leftmost_find_iter(hay).map(mt)),
        }
    }
    fn open_iter<'a>(&'a self, m: Method, src: ByteSrc<'a>) -> MatchIter<'a> {
        unsafe {
            match m {
                Method::Find => Box::new(self.0.find_iter_from_iter(src).map(mt)),
                Method::Overlapping => {
                    Box::new(self.0.find_overlapping_iter_from_iter(src).map(mt))
                }
                Method::NoSuffix => {
                    Box::new(self.0.find_overlapping_no_suffix_iter_from_iter(src).map(mt))
                }
                Method::Leftmost => panic!("harness: no byte-iterator entry point for leftmost"),
            }
        }
    }
    fn open_slice_inline<'a>(&'a self, m: Method, hay: InlineHay) -> MatchIter<'a> {
        assert!(std::str::from_utf8(AsRef::<[u8]>::as_ref(&hay)).is_ok(), "harness: char-wise haystack must be UTF-8");
        let it: MatchIter<'a> = match m {
            Method::Find => Box::new(self.0.find_iter(hay).map(mt)),
            Method::Overlapping => Box::new(self.0.find_overlapping_iter(hay).map(mt)),
            Method::NoSuffix => Box::new(self.0.find_overlapping_no_suffix_iter(hay).map(mt)),
            Method::Leftmost => Box::new(self.0.leftmost_find_iter(hay).map(mt)),
        };
        scribble_stack();
        it
    }
    fn consume_slice(&self, m: Method, hay: Hay, inline: bool, pre: usize, style: u8) -> Consumed {
        assert!(std::str::from_utf8(AsRef::<[u8]>::as_ref(&hay)).is_ok(), "harness: char-wise haystack must be UTF-8");
        if let (true, Some(hay)) = (inline, InlineHay::new(&hay.bytes)) {
            return match m {
                Method::Find => consume!(self.0.find_iter(hay), mt, pre, style),
                Method::Overlapping => consume!(self.0.find_overlapping_iter(hay), mt, pre, style),
                Method::NoSuffix => consume!(self.0.find_overlapping_no_suffix_iter(hay), mt, pre, style),
                Method::Leftmost => consume!(self.0.leftmost_find_iter(hay), mt, pre, style),
            };
        }
        match m {
            Method::Find => consume!(self.0.find_iter(hay), mt, pre, style),
            Method::Overlapping => consume!(self.0.find_overlapping_iter(hay), mt, pre, style),
            Method::NoSuffix => consume!(self.0.find_overlapping_no_suffix_iter(hay), mt, pre, style),
            Method::Leftmost => consume!(self.0.leftmost_find_iter(hay), mt, pre, style),
        }
    }
    fn consume_iter(&self, m: Method, src: ByteSrc<'_>, pre: usize, style: u8) -> Consumed {
        unsafe {
            match m {
                Method::Find => consume!(self.0.find_iter_from_iter(src), mt, pre, style),
                Method::Overlapping => consume!(self.0.find_overlapping_iter_from_iter(src), mt, pre, style),
                Method::NoSuffix => consume!(self.0.find_overlapping_no_suffix_iter_from_iter(src), mt, pre, style),
                Method::Leftmost => panic!("harness: no byte-iterator entry point for leftmost"),
            }
        }
    }
    fn serialize(&self) -> Vec<u8> {
        self.0.serialize()
    }
    fn same(&self, other: &dyn DynPma) -> bool {
        match other.as_any().downcast_ref::<Cw<V>>() {
            Some(o) => V::cw_eq(&self.0, &o.0),
            None => false,
        }
    }
    fn clone_box(&self) -> Box<dyn DynPma> {
        Box::new(Cw(self.0.clone()))
    }
    fn stats(&self) -> (usize, usize) {
        (self.0.num_states(), self.0.heap_bytes())
    }
    fn roundtrip(&self, trailing: &[u8]) -> (Box<dyn DynPma>, usize) {
        let mut b = self.0.serialize();
        b.extend_from_slice(trailing);
        let (p, rest) = unsafe { CharwiseDoubleArrayAhoCorasick::<V>::deserialize_unchecked(&b) };
        (Box::new(Cw(p)), rest.len())
    }
    fn as_any(&self) -> &dyn std::any::Any {
        self
    }
}

/// A pattern handed to the builder; `as_ref()` runs the hook (a scheduling point while
/// building).
pub struct Pat<'a> {
    bytes: &'a [u8],
    hook: fn(),
}

impl AsRef<[u8]> for Pat<'_> {
    fn as_ref(&self) -> &[u8] {
        (self.hook)();
        self.bytes
    }
}

impl AsRef<str> for Pat<'_> {
    fn as_ref(&self) -> &str {
        (self.hook)();
        unsafe { std::str::from_utf8_unchecked(self.bytes) }
    }
}

/// Hides `size_hint()` (and every other specialisable method) of the wrapped iterator.
struct Opaque<I>(I);
impl<I: Iterator> Iterator for Opaque<I> {
    type Item = I::Item;
    fn next(&mut self) -> Option<I::Item> {
        self.0.next()
    }
}

/// A pattern object that owns its bytes: produced lazily by the feeding iterator and dropped by
/// the builder after each item, so the storage of one pattern is free for the next.
pub struct PatOwned {
    bytes: Vec<u8>,
    hook: fn(),
}

impl AsRef<[u8]> for PatOwned {
    fn as_ref(&self) -> &[u8] {
        (self.hook)();
        &self.bytes
    }
}

impl AsRef<str> for PatOwned {
    fn as_ref(&self) -> &str {
        (self.hook)();
        unsafe { std::str::from_utf8_unchecked(&self.bytes) }
    }
}

/// A pattern object that stores its bytes inline and is handed over by value (what `[u8; N]` keys
/// are to a caller): successive items occupy the same stack slot inside the builder's loop.
#[derive(Clone, Copy)]
pub struct PatInline {
    buf: [u8; PAT_INLINE_MAX],
    len: u8,
    hook: fn(),
}

pub const PAT_INLINE_MAX: usize = 32;

impl AsRef<[u8]> for PatInline {
    fn as_ref(&self) -> &[u8] {
        (self.hook)();
        &self.buf[..self.len as usize]
    }
}

impl AsRef<str> for PatInline {
    fn as_ref(&self) -> &str {
        (self.hook)();
        unsafe { std::str::from_utf8_unchecked(&self.buf[..self.len as usize]) }
    }
}

/// How the patterns reach the builder: 0 = references into one live collection, 1 = the same
/// behind an iterator without size hint, 2 = owned objects produced lazily, 3 = inline objects
/// by value (falls back to 2 when a pattern does not fit).
pub const N_FEEDS: u8 = 4;

fn build_t<V: SimVal>(
    spec: &Spec,
    order: &[usize],
    hook: fn(),
    feed: u8,
) -> Result<Box<dyn DynPma>, String> {
    let identity = order.iter().enumerate().all(|(i, &j)| i == j);
    let fits_inline = spec.patterns.iter().all(|p| p.len() <= PAT_INLINE_MAX);
    match feed % N_FEEDS {
        3 if fits_inline => {
            let pats = order.iter().map(move |&i| {
                hook();
                let mut buf = [0u8; PAT_INLINE_MAX];
                let p = &spec.patterns[i];
                buf[..p.len()].copy_from_slice(p);
                PatInline { buf, len: p.len() as u8, hook }
            });
            build_from::<V, PatInline>(spec, order, identity, Box::new(Opaque(pats)))
        }
        2 | 3 => {
            let pats = order.iter().map(move |&i| {
                hook();
                PatOwned { bytes: spec.patterns[i].clone(), hook }
            });
            build_from::<V, PatOwned>(spec, order, identity, Box::new(pats))
        }
        f => {
            // `opaque`: the same input reaches the builder through an iterator that hides the exact
            // size_hint of the slice iterator
            let base = order.iter().map(move |&i| {
                hook();
                Pat { bytes: &spec.patterns[i], hook }
            });
            let pats: Box<dyn Iterator<Item = Pat>> = if f == 1 { Box::new(Opaque(base)) } else { Box::new(base) };
            build_from::<V, Pat>(spec, order, identity, pats)
        }
    }
}

fn build_from<'a, V: SimVal, P: AsRef<[u8]> + AsRef<str> + 'a>(
    spec: &'a Spec,
    order: &'a [usize],
    identity: bool,
    pats: Box<dyn Iterator<Item = P> + 'a>,
) -> Result<Box<dyn DynPma>, String> {
    match spec.variant {
        Variant::Bytewise => {
            let b = DoubleArrayAhoCorasickBuilder::new()
                .match_kind(spec.kind.mk())
                .num_free_blocks(spec.num_free_blocks);
            let ctor = spec.ctor && spec.kind == Kind::Standard && spec.num_free_blocks == DEFAULT_NFB;
            let r = match spec.entry {
                Entry::Indices if identity && ctor => DoubleArrayAhoCorasick::<V>::new(pats),
                Entry::Indices if identity => b.build::<_, _, V>(pats),
                // values are the original input positions: a permuted feed has to carry them
                Entry::Indices if ctor => DoubleArrayAhoCorasick::<V>::with_values(
                    pats.zip(order.iter().map(|&i| V::from_raw(i as u64))),
                ),
                Entry::Indices => b.build_with_values::<_, _, V>(
                    pats.zip(order.iter().map(|&i| V::from_raw(i as u64))),
                ),
                Entry::WithValues if ctor => DoubleArrayAhoCorasick::<V>::with_values(
                    pats.zip(order.iter().map(|&i| V::from_raw(spec.values[i]))),
                ),
                Entry::WithValues => b.build_with_values::<_, _, V>(
                    pats.zip(order.iter().map(|&i| V::from_raw(spec.values[i]))),
                ),
            };
            r.map(|p| Box::new(Bw(p)) as Box<dyn DynPma>)
                .map_err(|e| format!("{e:?}"))
        }
        Variant::Charwise => {
            for p in &spec.patterns {
                assert!(
                    std::str::from_utf8(p).is_ok(),
                    "harness: char-wise pattern must be UTF-8"
                );
            }
            let b = CharwiseDoubleArrayAhoCorasickBuilder::new()
                .match_kind(spec.kind.mk())
                .num_free_blocks(spec.num_free_blocks);
            let ctor = spec.ctor && spec.kind == Kind::Standard && spec.num_free_blocks == DEFAULT_NFB;
            let r = match spec.entry {
                Entry::Indices if identity && ctor => CharwiseDoubleArrayAhoCorasick::<V>::new(pats),
                Entry::Indices if identity => b.build::<_, _, V>(pats),
                // values are the original input positions: a permuted feed has to carry them
                Entry::Indices if ctor => CharwiseDoubleArrayAhoCorasick::<V>::with_values(
                    pats.zip(order.iter().map(|&i| V::from_raw(i as u64))),
                ),
                Entry::Indices => b.build_with_values::<_, _, V>(
                    pats.zip(order.iter().map(|&i| V::from_raw(i as u64))),
                ),
                Entry::WithValues if ctor => CharwiseDoubleArrayAhoCorasick::<V>::with_values(
                    pats.zip(order.iter().map(|&i| V::from_raw(spec.values[i]))),
                ),
                Entry::WithValues => b.build_with_values::<_, _, V>(
                    pats.zip(order.iter().map(|&i| V::from_raw(spec.values[i]))),
                ),
            };
            r.map(|p| Box::new(Cw(p)) as Box<dyn DynPma>)
                .map_err(|e| format!("{e:?}"))
        }
    }
}

/// Build from `spec`, feeding the patterns in the order given by `order` (a permutation of
/// `0..n`; with `Entry::Indices` the values follow the positions, so permuting is only
/// meaningful with `Entry::WithValues`). `hook` runs before every pattern is produced and
/// on every `as_ref()` of a pattern.
pub fn build_ordered(spec: &Spec, order: &[usize], hook: fn()) -> Result<Box<dyn DynPma>, String> {
    build_ordered_opt(spec, order, hook, false)
}

pub fn build_ordered_opt(spec: &Spec, order: &[usize], hook: fn(), opaque: bool) -> Result<Box<dyn DynPma>, String> {
    build_ordered_feed(spec, order, hook, if opaque { 1 } else { 0 })
}

pub fn build_ordered_feed(spec: &Spec, order: &[usize], hook: fn(), opaque: u8) -> Result<Box<dyn DynPma>, String> {
    match spec.vtype {
        VType::U8 => build_t::<u8>(spec, order, hook, opaque),
        VType::U16 => build_t::<u16>(spec, order, hook, opaque),
        VType::U32 => build_t::<u32>(spec, order, hook, opaque),
        VType::U64 => build_t::<u64>(spec, order, hook, opaque),
        VType::U128 => build_t::<u128>(spec, order, hook, opaque),
        VType::I32 => build_t::<i32>(spec, order, hook, opaque),
        VType::I128 => build_t::<i128>(spec, order, hook, opaque),
        VType::Usize => build_t::<usize>(spec, order, hook, opaque),
        VType::Empty => build_t::<Empty>(spec, order, hook, opaque),
        VType::I8 => build_t::<i8>(spec, order, hook, opaque),
        VType::I16 => build_t::<i16>(spec, order, hook, opaque),
        VType::I64 => build_t::<i64>(spec, order, hook, opaque),
        VType::Isize => build_t::<isize>(spec, order, hook, opaque),
    }
}

pub fn build(spec: &Spec) -> Result<Box<dyn DynPma>, String> {
    let order: Vec<usize> = (0..spec.patterns.len()).collect();
    build_ordered(spec, &order, || {})
}
