//! E1-giant — one very long stream per byte-iterator entry point (property C12): positions
//! beyond 2^32 and a match-free stretch of more than 2^32 bytes inside one `next()` call. The
//! stream is generated lazily (filler byte `x`, then a short tail with occurrences), never
//! materialised; the pull counter is 64 bit. Oracle: at every returned match `pulls == end`
//! (L1), and the matches equal the slice search of the tail shifted by the filler length (the
//! filler byte occurs in no pattern, so the automaton is at the root when the tail starts).

use std::cell::Cell;
use std::rc::Rc;
use std::time::Instant;

use serde::{Deserialize, Serialize};
use serde_json::json;

use crate::batch::{arg, arg_u64, harness_error};
use crate::pma::{self, Entry, Kind, Method, Mt, Spec, VType, Variant, STD_METHODS};
use crate::rng::Rng;

pub const ENGINE_ID: u64 = 7;

#[derive(Clone, Debug, Serialize, Deserialize)]
pub struct Giant {
    pub spec: Spec,
    pub method: Method,
    pub filler: u64,
    pub tail: Vec<u8>,
}

struct GiantSource {
    left: u64,
    tail: Vec<u8>,
    i: usize,
    pulls: Rc<Cell<u64>>,
}

impl Iterator for GiantSource {
    type Item = u8;
    #[inline]
    fn next(&mut self) -> Option<u8> {
        if self.left > 0 {
            self.left -= 1;
            self.pulls.set(self.pulls.get() + 1);
            return Some(b'x');
        }
        let b = self.tail.get(self.i).copied();
        if b.is_some() {
            self.i += 1;
            self.pulls.set(self.pulls.get() + 1);
        }
        b
    }
    fn size_hint(&self) -> (usize, Option<usize>) {
        let n = self.left as usize + (self.tail.len() - self.i);
        (n, Some(n))
    }
}

pub fn run(g: &Giant) -> Result<u64, (String, String)> {
    let p = pma::build(&g.spec).map_err(|e| ("harness".to_string(), format!("harness: giant build failed: {e}")))?;
    let want: Vec<Mt> = pma::search(&*p, g.method, &g.tail);
    let pulls = Rc::new(Cell::new(0u64));
    let src = GiantSource { left: g.filler, tail: g.tail.clone(), i: 0, pulls: pulls.clone() };
    let mut it = p.open_iter(g.method, Box::new(src));
    let mut k = 0usize;
    loop {
        let r = it.next();
        let pulled = pulls.get();
        match r {
            Some(m) => {
                if m.e as u64 != pulled {
                    return Err(("lazy".into(), format!("{:?}/{:?}: match (start {}, end {}) returned after {} bytes pulled (stream with {} filler bytes before the first occurrence)", g.spec.variant, g.method, m.s, m.e, pulled, g.filler)));
                }
                let w = want.get(k).copied();
                let shifted = w.map(|w| (w.s as u64 + g.filler, w.e as u64 + g.filler, w.v));
                if shifted != Some((m.s as u64, m.e as u64, m.v)) {
                    return Err(("same-matches".into(), format!("{:?}/{:?}: match #{k} is ({}, {}, {}), the slice search of the tail shifted by {} gives {:?}", g.spec.variant, g.method, m.s, m.e, m.v, g.filler, shifted)));
                }
                k += 1;
            }
            None => break,
        }
    }
    if k != want.len() {
        return Err(("same-matches".into(), format!("{:?}/{:?}: {k} matches, the slice search of the tail gives {}", g.spec.variant, g.method, want.len())));
    }
    let total = g.filler + g.tail.len() as u64;
    Ok(total)
}

pub fn generate(seed: u64, variant: Variant, method: Method, log2: u32) -> Giant {
    let mut rng = Rng::new(seed ^ ((variant as u64) << 8) ^ (method as u64));
    let pool: &[&str] = &["abc", "bc", "abcd", "c", "d", "cd", "é", "bé", "世界"];
    let mut pats: Vec<Vec<u8>> = vec![];
    for _ in 0..rng.range(1, 4) {
        let p = rng.pick(pool).as_bytes().to_vec();
        if !pats.contains(&p) {
            pats.push(p);
        }
    }
    let n = pats.len();
    let spec = Spec {
        variant,
        kind: Kind::Standard,
        num_free_blocks: *rng.pick(&[1u32, 16]),
        entry: Entry::WithValues,
        ctor: false,
        vtype: *rng.pick(&[VType::U32, VType::U64, VType::U8]),
        patterns: pats.clone(),
        values: (0..n as u64).map(|i| i * 3 + 1).collect(),
    };
    // tail: occurrences separated by filler, ending with a little filler
    let mut tail = vec![];
    for _ in 0..rng.range(2, 4) {
        let p: &Vec<u8> = &pats[rng.below(pats.len())];
        tail.extend_from_slice(p);
        for _ in 0..rng.range(0, 7) {
            tail.push(b'x');
        }
    }
    let filler = (1u64 << log2) + rng.below(17) as u64 - 8;
    Giant { spec, method, filler, tail }
}

pub fn cli(args: &[String]) -> i32 {
    let seed = arg_u64(args, "--seed", 1);
    let log2 = arg_u64(args, "--log2", 32) as u32;
    let out = arg(args, "--out").unwrap_or("/verif/.work/giant.json").to_string();
    let replay_dir = arg(args, "--replay-dir").unwrap_or("/verif/replays").to_string();
    let t0 = Instant::now();
    println!("engine=giant seed={seed} filler=2^{log2} (6 entry points in parallel)");
    let mut cases = vec![];
    for v in [Variant::Bytewise, Variant::Charwise] {
        for m in STD_METHODS {
            cases.push(generate(crate::rng::mix(seed, ENGINE_ID, log2 as u64), v, m, log2));
        }
    }
    let results: Vec<(Giant, Result<u64, (String, String)>)> = std::thread::scope(|s| {
        let hs: Vec<_> = cases
            .iter()
            .map(|g| {
                s.spawn(move || {
                    let r = std::panic::catch_unwind(std::panic::AssertUnwindSafe(|| run(g)));
                    match r {
                        Ok(r) => r,
                        Err(p) => Err(("panic".into(), format!("byte-iterator search panicked on a stream of more than 2^{log2} bytes: {}", crate::panic_message(&p)))),
                    }
                })
            })
            .collect();
        cases.iter().cloned().zip(hs.into_iter().map(|h| h.join().unwrap())).collect()
    });
    let mut bytes = 0u64;
    let mut fail = None;
    for (g, r) in &results {
        match r {
            Ok(n) => bytes += n,
            Err((c, d)) => {
                if c == "harness" {
                    harness_error(d);
                }
                if fail.is_none() {
                    fail = Some((g.clone(), c.clone(), d.clone()));
                }
            }
        }
    }
    let mut replay = None;
    if let Some((g, c, d)) = &fail {
        eprintln!("giant stream violated C12: [{c}] {d}");
        let path = format!("{replay_dir}/C12-giant-{seed}-{log2}-{:?}-{:?}.json", g.spec.variant, g.method);
        let doc = json!({"engine": "giant", "property": "C12", "verif_seed": seed, "class": c, "detail": d, "scenario": g});
        std::fs::create_dir_all(&replay_dir).ok();
        std::fs::write(&path, serde_json::to_string_pretty(&doc).unwrap()).unwrap_or_else(|e| harness_error(&format!("write {path}: {e}")));
        replay = Some(path);
    }
    let wall = t0.elapsed().as_secs_f64();
    let doc = json!({
        "engine": "E1-giant", "seed": seed, "evaluations": results.len(), "bytes_streamed": bytes,
        "filler_log2": log2, "wall_s": wall, "violations": if fail.is_some() { 1 } else { 0 }, "replay": replay,
        "samples": [results.first().map(|r| json!({"variant": r.0.spec.variant, "method": r.0.method, "patterns": r.0.spec.patterns.iter().map(|p| String::from_utf8_lossy(p).into_owned()).collect::<Vec<_>>(), "filler": r.0.filler, "tail": String::from_utf8_lossy(&r.0.tail)}))],
    });
    if let Some(dir) = std::path::Path::new(&out).parent() {
        std::fs::create_dir_all(dir).ok();
    }
    std::fs::write(&out, serde_json::to_string_pretty(&doc).unwrap()).unwrap_or_else(|e| harness_error(&format!("write {out}: {e}")));
    println!("giant: {} entry points, {} bytes streamed in {wall:.1}s", results.len(), bytes);
    if let Some(p) = replay {
        println!("VIOLATION property=C12 replay={p}");
        return 1;
    }
    0
}

pub fn replay(doc: &serde_json::Value) -> i32 {
    let g: Giant = serde_json::from_value(doc["scenario"].clone()).unwrap_or_else(|e| harness_error(&format!("replay file: bad scenario: {e}")));
    match std::panic::catch_unwind(std::panic::AssertUnwindSafe(|| run(&g))) {
        Ok(Ok(_)) => {
            println!("replayed: no violation");
            0
        }
        Ok(Err((c, d))) => {
            println!("replayed: [{c}] {d}");
            1
        }
        Err(p) => {
            println!("replayed: [panic] {}", crate::panic_message(&p));
            1
        }
    }
}
