//! `dsim gen-selftest --runs N [--seed S]`: run every scenario generator on N seeds without
//! executing anything and check the invariants the executors and oracles rely on. A generator
//! that panics or produces an ill-formed scenario is a harness defect (exit 2).

use std::collections::HashSet;

use crate::batch::{self, arg_u64, harness_error, Batch};
use crate::pma::{Spec, Variant};

fn check_spec(s: &Spec, what: &str, rs: u64) {
    let bad = |m: &str| -> ! { harness_error(&format!("{what} (run seed {rs}): {m}")) };
    if s.patterns.is_empty() {
        bad("empty pattern set");
    }
    if s.patterns.len() != s.values.len() {
        bad("values not parallel to patterns");
    }
    let mut seen = HashSet::new();
    for p in &s.patterns {
        if p.is_empty() {
            bad("empty pattern");
        }
        if !seen.insert(p.clone()) {
            bad("duplicate pattern");
        }
        if s.variant == Variant::Charwise && std::str::from_utf8(p).is_err() {
            bad("char-wise pattern that is not UTF-8");
        }
    }
    if s.num_free_blocks == 0 {
        bad("num_free_blocks = 0");
    }
}

#[derive(Default)]
struct L {
    n: u64,
}

pub fn cli(args: &[String]) -> i32 {
    let seed = arg_u64(args, "--seed", 1);
    let runs = arg_u64(args, "--runs", 200_000);
    let workers = arg_u64(args, "--workers", 16) as usize;
    let b = Batch { seed, engine: 99, runs, workers };
    let locals: Vec<L> = batch::run_batch(&b, |_k, rs, l: &mut L| {
        // E1
        let sc = crate::stream::generate(rs);
        check_spec(&sc.spec, "stream scenario", rs);
        for st in &sc.streams {
            if sc.spec.variant == Variant::Charwise && std::str::from_utf8(st).is_err() {
                harness_error(&format!("stream scenario (run seed {rs}): char-wise stream that is not UTF-8"));
            }
        }
        for h in &sc.handles {
            if h.stream >= sc.streams.len() {
                harness_error(&format!("stream scenario (run seed {rs}): handle on a missing stream"));
            }
        }
        // E2
        let w = crate::threads::generate(rs);
        check_spec(&w.spec, "threads workload", rs);
        for h in &w.hays {
            if w.spec.variant == Variant::Charwise && std::str::from_utf8(h).is_err() {
                harness_error(&format!("threads workload (run seed {rs}): char-wise haystack that is not UTF-8"));
            }
        }
        let ls = crate::threads::lockstep_generate(rs);
        check_spec(&ls.spec, "lock-step scenario", rs);
        if ls.spec.variant == Variant::Charwise && std::str::from_utf8(&ls.content).is_err() {
            harness_error(&format!("lock-step scenario (run seed {rs}): content that is not UTF-8"));
        }
        check_spec(&crate::threads::generate_big_spec(rs), "sampler spec", rs);
        // E4
        for small in [false, true] {
            let c = crate::cli::generate(rs, &crate::cli::GenCfg { cr_percent: 3, allow_long_lines: !small, small });
            let bad = |m: &str| -> ! { harness_error(&format!("cli scenario (run seed {rs}, small={small}): {m}")) };
            if c.patterns.is_empty() {
                bad("no pattern");
            }
            let mut seen = HashSet::new();
            for (i, p) in c.patterns.iter().enumerate() {
                if p.is_empty() || p.contains('\n') || p.contains('\r') {
                    bad("empty pattern or pattern with a line break");
                }
                if !seen.insert(p) {
                    bad("duplicate pattern");
                }
                if i < c.p_count && p.contains('\0') {
                    bad("NUL in a pattern passed through argv");
                }
            }
            if c.p_count > c.patterns.len() {
                bad("p_count beyond the pattern list");
            }
            if c.p_count > 0 && c.patterns[0].starts_with('-') {
                bad("-p value starting with '-'");
            }
            for (name, lines) in c.files.iter() {
                if name.is_empty() || name.starts_with('-') || name.contains('/') || ["stdin.txt", "pats.txt", "sched.txt", "io.log", "out.bin", "err.txt"].contains(&name.as_str()) {
                    bad("bad file name");
                }
                for l in lines {
                    if l.contains('\n') {
                        bad("line containing LF");
                    }
                }
            }
            for i in 0..c.files.len() {
                for j in 0..i {
                    if c.files[i].0 == c.files[j].0 && c.files[i].1 != c.files[j].1 {
                        bad("two different files with the same name");
                    }
                }
            }
            if !c.files.is_empty() && !c.stdin_lines.is_empty() {
                bad("stdin content although files are given");
            }
            let colour_on = matches!(c.color, crate::cli::Color::Always | crate::cli::Color::Auto);
            if colour_on && c.files.iter().flat_map(|f| f.1.iter()).chain(c.stdin_lines.iter()).any(|l| l.contains('\u{1b}')) {
                bad("ESC in the input although colouring may be on");
            }
        }
        l.n += 1;
        false
    });
    let n: u64 = locals.iter().map(|l| l.n).sum();
    if n != runs {
        harness_error(&format!("gen-selftest executed {n} of {runs} runs"));
    }
    println!("gen-selftest: {n} seeds x 6 generators, all scenarios well-formed");
    0
}
