//! dsim — deterministic simulation harness for daachorse (properties C12, C14, C16).
//!
//! Exit codes: 0 = property held on everything explored, 1 = violation (a line
//! `VIOLATION property=<id> replay=<path>` is printed), 2 = harness error.

mod allocfail;
mod batch;
mod cli;
mod cli_cli;
mod colossal;
mod gen;
mod genselftest;
mod giant;
mod pma;
mod rng;
mod stream;
mod stream_cli;
mod threads;
mod threads_cli;

use batch::harness_error;

#[global_allocator]
static GLOBAL: allocfail::FaultAlloc = allocfail::FaultAlloc;

pub fn panic_message(p: &Box<dyn std::any::Any + Send>) -> String {
    if let Some(s) = p.downcast_ref::<&str>() {
        s.to_string()
    } else if let Some(s) = p.downcast_ref::<String>() {
        s.clone()
    } else {
        "<non-string panic payload>".to_string()
    }
}

fn main() {
    let args: Vec<String> = std::env::args().collect();
    if args.len() < 2 {
        harness_error("usage: dsim <stream|replay> ...");
    }
    // Panics of the code under test are caught per run and turned into violations; keep the
    // default hook quiet so that logs stay readable (and never influence the schedule).
    let loud = batch::has(&args, "--loud");
    let default_hook = std::panic::take_hook();
    std::panic::set_hook(Box::new(move |info| {
        let msg = if let Some(s) = info.payload().downcast_ref::<&str>() {
            s.to_string()
        } else if let Some(s) = info.payload().downcast_ref::<String>() {
            s.clone()
        } else {
            String::new()
        };
        threads::on_panic(&msg);
        if loud {
            default_hook(info);
        }
    }));
    let code = match args[1].as_str() {
        "stream" => stream_cli::cli(&args[2..]),
        "threads" => threads_cli::cli_threads(&args[2..]),
        "lockstep" => threads_cli::cli_lockstep(&args[2..]),
        "cli" => cli_cli::cli(&args[2..]),
        "cli-one" => cli_cli::cli_one(&args[2..]),
        "giant" => giant::cli(&args[2..]),
        "gen-selftest" => genselftest::cli(&args[2..]),
        "images" => threads_cli::cli_images(&args[2..]),
        "image-of" => threads_cli::cli_image_of(&args[2..]),
        "image-of-lowmem" => allocfail::cli_child(&args[2..]),
        "allocfail" => allocfail::cli(&args[2..]),
        "colossal" => colossal::cli(&args[2..]),
        "replay" => {
            let path = args.get(2).unwrap_or_else(|| harness_error("replay: missing path"));
            let txt = std::fs::read_to_string(path)
                .unwrap_or_else(|e| harness_error(&format!("read {path}: {e}")));
            let doc: serde_json::Value = serde_json::from_str(&txt)
                .unwrap_or_else(|e| harness_error(&format!("parse {path}: {e}")));
            let prop = doc["property"].as_str().unwrap_or("?").to_string();
            let code = match doc["engine"].as_str() {
                Some("stream") => stream_cli::replay(&doc),
                Some("threads") | Some("lockstep") => threads_cli::replay(&doc),
                Some("cli") => cli_cli::replay(&doc, &args[3..]),
                Some("perm") => threads_cli::replay_perm(&doc),
                Some("giant") => giant::replay(&doc),
                Some("allocfail") => allocfail::replay(&doc),
                Some("colossal") => colossal::replay(&doc),
                other => harness_error(&format!("replay: unknown engine {other:?}")),
            };
            if code == 1 {
                println!("VIOLATION property={prop} replay={path}");
            }
            code
        }
        other => harness_error(&format!("unknown subcommand {other}")),
    };
    std::process::exit(code);
}
