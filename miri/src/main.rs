//! E3 — the C14 differential oracle on real `std::thread`s, meant to run under Miri
//! (`-Zmiri-many-seeds`, `-Zmiri-preemption-rate`): Miri pre-empts at basic-block
//! granularity inside daachorse and reports unsynchronised shared mutation as a data race.
//! Also runs natively (then it is a plain stress run and proves little).
//!
//! usage: dmiri <workload-seed> [<count>]
//! prints `MIRI-VIOLATION class=<c> wseed=<s> <detail>` and exits 1 on a violation.

#[allow(dead_code)]
#[path = "../../sim/src/gen.rs"]
mod gen;
#[allow(dead_code)]
#[path = "../../sim/src/pma.rs"]
mod pma;
#[allow(dead_code)]
#[path = "../../sim/src/rng.rs"]
mod rng;

use std::sync::Arc;

use gen::GenOpts;
use pma::{DynPma, Hay, Kind, Method, Mt, Spec, Variant, STD_METHODS};
use rng::Rng;

#[derive(Clone, Debug)]
enum Op {
    Search { method: Method, hay: usize, iter: bool },
    Serialize,
    BuildAgain,
    BuildPermuted(Vec<usize>),
}

fn hook() {
    std::thread::yield_now();
}

struct YSrc {
    b: Arc<[u8]>,
    pos: usize,
}
impl Iterator for YSrc {
    type Item = u8;
    fn next(&mut self) -> Option<u8> {
        hook();
        let r = self.b.get(self.pos).copied();
        if r.is_some() {
            self.pos += 1;
        }
        r
    }
}

fn violation(class: &str, wseed: u64, detail: String) -> ! {
    println!("MIRI-VIOLATION class={class} wseed={wseed} {detail}");
    std::process::exit(1);
}

fn one(wseed: u64) {
    let mut rng = Rng::new(rng::mix(wseed, 4, 0));
    // Coverage by construction: the six (variant, kind) combinations rotate with the workload
    // seed, and within a workload two threads run every search method the kind allows at the
    // same time (one through the slice entry points, one through the byte-iterator ones) while
    // a third rebuilds, permutes and serialises. The seed only varies patterns and haystacks.
    let variant = if wseed % 2 == 0 { Variant::Bytewise } else { Variant::Charwise };
    let kinds: &'static [Kind] = match (wseed / 2) % 3 {
        0 => &[Kind::Standard],
        1 => &[Kind::LeftmostLongest],
        _ => &[Kind::LeftmostFirst],
    };
    let opts = GenOpts { variant: Some(variant), kinds, wide_max: 41, tiny: true, big_cp_of_8: 0 };
    let (spec, _): (Spec, _) = gen::gen_spec(&mut rng, &opts);
    // Two haystacks. The first is searched by two threads at the same time, so it is made rich
    // in repeated multi-byte characters and pattern occurrences: races on per-character or
    // per-transition state need the same inputs to be looked up by both threads close in time.
    let nh = 2;
    let hays: Vec<Arc<[u8]>> = (0..nh)
        .map(|i| {
            let target = if i == 0 { *rng.pick(&[24usize, 32, 40]) } else { *rng.pick(&[6usize, 10]) };
            let (mut h, _) = gen::gen_haystack(&mut rng, &spec, target);
            if i == 0 {
                // alternate between two pattern characters / patterns a few times
                let a = spec.patterns[rng.below(spec.patterns.len())].clone();
                let b = spec.patterns[rng.below(spec.patterns.len())].clone();
                for _ in 0..3 {
                    h.extend_from_slice(&a);
                    h.extend_from_slice(&b);
                }
            }
            let h = if spec.variant == Variant::Charwise && std::str::from_utf8(&h).is_err() {
                String::from_utf8_lossy(&h).into_owned().into_bytes()
            } else {
                h
            };
            Arc::from(&h[..])
        })
        .collect();
    let methods: &[Method] = if spec.kind == Kind::Standard { &STD_METHODS } else { &[Method::Leftmost] };
    let n = spec.patterns.len();
    let mut threads: Vec<Vec<Op>> = vec![vec![], vec![], vec![]];
    let mut ms: Vec<Method> = methods.to_vec();
    rng.shuffle(&mut ms);
    // searches are cheap next to the builds: run the method list three times per thread so that
    // the two searching threads overlap for long
    let ms3: Vec<Method> = ms.iter().chain(ms.iter()).chain(ms.iter()).copied().collect();
    for (i, &method) in ms3.iter().enumerate() {
        threads[0].push(Op::Search { method, hay: 0, iter: false });
        // the other thread runs the methods in rotated order so that different methods overlap too
        let m2 = ms[(i + rng.below(2)) % ms.len()];
        threads[1].push(Op::Search { method: m2, hay: 0, iter: m2 != Method::Leftmost });
    }
    threads[2].push(Op::Search { method: ms[0], hay: 1, iter: false });
    if spec.kind != Kind::LeftmostFirst && n >= 2 {
        let mut o: Vec<usize> = (0..n).collect();
        rng.shuffle(&mut o);
        threads[2].push(Op::BuildPermuted(o));
    } else {
        threads[2].push(Op::BuildAgain);
    }
    threads[2].push(Op::Serialize);
    if rng.chance(1, 2) {
        threads[2].swap(1, 2);
    }
    // one short line (a long one would be written in pieces and interleave with other seeds' output)
    println!("wseed={wseed} spec={:?}/{:?}/{:?} patterns={} ops={:?}", spec.variant, spec.kind, spec.vtype, n, threads.iter().map(|t| t.len()).collect::<Vec<_>>());

    // The sequential part. A panic or a failing build here has nothing to do with sharing: the
    // workload is skipped, not judged.
    let prov = (wseed / 6) % 3; // 0 = built, 1 = clone, 2 = restored from serialised bytes
    let seq = std::panic::catch_unwind(std::panic::AssertUnwindSafe(|| {
        let built = pma::build(&spec)?;
        let shared: Box<dyn DynPma> = match prov {
            1 => built.clone_box(),
            2 => built.roundtrip(&[]).0,
            _ => built,
        };
        // reference results come from a SECOND automaton built from the same input, so that the
        // shared one is still untouched ("first use" is part of the history)
        let reference = pma::build(&spec)?;
        let image = reference.serialize();
        let mut want: std::collections::HashMap<(Method, usize, bool), Vec<Mt>> = Default::default();
        for th in &threads {
            for op in th {
                if let Op::Search { method, hay, iter } = op {
                    // the single-threaded result of the same entry point
                    want.entry((*method, *hay, *iter)).or_insert_with(|| {
                        if *iter {
                            reference.open_iter(*method, Box::new(hays[*hay].to_vec().into_iter())).collect()
                        } else {
                            pma::search(&*reference, *method, &hays[*hay])
                        }
                    });
                }
            }
        }
        let same_image = shared.serialize() == image;
        Ok::<_, String>((shared, image, want, same_image))
    }));
    let (p, image, want) = match seq {
        Ok(Ok((shared, image, want, same_image))) => {
            if !same_image {
                violation("build-differs", wseed, "two builds from the same input (one possibly cloned / restored) serialise differently".into());
            }
            (Arc::new(shared), image, want)
        }
        Ok(Err(e)) => {
            println!("wseed={wseed}: build error {e} (skipped)");
            return;
        }
        Err(_) => {
            println!("wseed={wseed}: the sequential reference run panicked (skipped, not judged)");
            return;
        }
    };
    let spec = Arc::new(spec);
    let want = Arc::new(want);
    let image = Arc::new(image);
    let hays = Arc::new(hays);
    let mut joins = vec![];
    for (t, ops) in threads.into_iter().enumerate() {
        let (p, spec, want, image, hays) = (p.clone(), spec.clone(), want.clone(), image.clone(), hays.clone());
        joins.push(std::thread::spawn(move || {
            for (i, op) in ops.iter().enumerate() {
                match op {
                    Op::Search { method, hay, iter } => {
                        let got: Vec<Mt> = if *iter {
                            p.open_iter(*method, Box::new(YSrc { b: hays[*hay].clone(), pos: 0 })).collect()
                        } else {
                            p.open_slice(*method, Hay { bytes: hays[*hay].clone(), hook }).collect()
                        };
                        if got != want[&(*method, *hay, *iter)] {
                            violation("search-differs", wseed, format!("thread {t} op {i}: {:?} got {:?} want {:?}", method, got, want[&(*method, *hay, *iter)]));
                        }
                    }
                    Op::Serialize => {
                        if p.serialize() != *image {
                            violation("image-changed", wseed, format!("thread {t} op {i}"));
                        }
                    }
                    Op::BuildAgain | Op::BuildPermuted(_) => {
                        let order: Vec<usize> = match op {
                            Op::BuildPermuted(o) => o.clone(),
                            _ => (0..spec.patterns.len()).collect(),
                        };
                        match pma::build_ordered(&spec, &order, hook) {
                            Ok(q) => {
                                if q.serialize() != *image || !q.same(&**p) {
                                    violation("build-differs", wseed, format!("thread {t} op {i}: order {:?}", order));
                                }
                            }
                            Err(e) => violation("build-differs", wseed, format!("thread {t} op {i}: {e}")),
                        }
                    }
                }
            }
        }));
    }
    for j in joins {
        if j.join().is_err() {
            violation("panic", wseed, "a thread panicked".into());
        }
    }
    if p.serialize() != *image {
        violation("image-changed", wseed, "after join".into());
    }
}

fn main() {
    let args: Vec<String> = std::env::args().collect();
    let wseed: u64 = args.get(1).and_then(|s| s.parse().ok()).unwrap_or(1);
    let count: u64 = args.get(2).and_then(|s| s.parse().ok()).unwrap_or(1);
    for k in 0..count {
        one(wseed.wrapping_add(k));
    }
    println!("dmiri ok wseed={wseed} count={count}");
}
