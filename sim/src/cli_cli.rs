//! Batch driver, fault enumeration, replay and partial evidence for E4 (property C16).

use std::collections::HashSet;
use std::path::PathBuf;
use std::sync::atomic::{AtomicUsize, Ordering};
use std::time::Instant;

use serde_json::json;

use crate::batch::{self, arg, arg_u64, harness_error, has, Batch};
use crate::cli::{self, Act, Bins, Counters, GenCfg, Mode, Scenario, Sched, Violation};
use crate::rng::Rng;

pub const ENGINE_ID: u64 = 5;

static WORKER: AtomicUsize = AtomicUsize::new(0);
thread_local! {
    static MY_DIR: std::cell::RefCell<Option<PathBuf>> = const { std::cell::RefCell::new(None) };
}

fn scratch_root(args: &[String]) -> PathBuf {
    if let Some(p) = arg(args, "--scratch") {
        return PathBuf::from(p);
    }
    let shm = std::path::Path::new("/dev/shm");
    let base = if shm.is_dir() { shm.to_path_buf() } else { PathBuf::from("/verif/.work") };
    base.join(format!("dsim-cli-{}", std::process::id()))
}

fn my_dir(root: &PathBuf) -> PathBuf {
    MY_DIR.with(|d| {
        let mut d = d.borrow_mut();
        if d.is_none() {
            let id = WORKER.fetch_add(1, Ordering::Relaxed);
            *d = Some(root.join(format!("w{id}")));
        }
        d.clone().unwrap()
    })
}

fn bins(args: &[String]) -> Bins {
    let t = arg(args, "--repo-target").unwrap_or("/verif/.target/repo");
    let b = Bins {
        dev: PathBuf::from(format!("{t}/debug/daacfind")),
        release: PathBuf::from(format!("{t}/release/daacfind")),
        shim: PathBuf::from(arg(args, "--shim").unwrap_or("/verif/.target/shim/iofault.so")),
    };
    for p in [&b.dev, &b.release, &b.shim] {
        if !p.exists() {
            harness_error(&format!("missing {}", p.display()));
        }
    }
    b
}

#[derive(Default)]
struct Local {
    c: Counters,
    runs: u64,
    enum_runs: u64,
    enum_scenarios: u64,
    enum_space: Vec<serde_json::Value>,
    scen: HashSet<u64>,
    nontrivial: HashSet<u64>,
    traces: HashSet<u64>,
    fail: Option<(u64, u64, Scenario, Violation)>,
    known: Vec<(u64, String, String)>,
    samples: Vec<serde_json::Value>,
    log: Vec<(u64, u64, u64)>,
}

fn known_open(args: &[String], id: &str) -> bool {
    let path = arg(args, "--known").unwrap_or("/verif/known_findings.json");
    let Ok(txt) = std::fs::read_to_string(path) else { return false };
    let Ok(doc) = serde_json::from_str::<serde_json::Value>(&txt) else {
        harness_error(&format!("{path} is not valid JSON"))
    };
    doc["findings"].as_array().map(|a| {
        a.iter().any(|f| f["property"] == "C16" && f["matcher"] == id && f["status"] == "open")
    }).unwrap_or(false)
}

fn describe(sc: &Scenario) -> String {
    let inputs: Vec<String> = if sc.files.is_empty() {
        vec![format!("stdin={:?}", sc.stdin_lines)]
    } else {
        sc.files.iter().map(|(n, l)| format!("{n}={l:?}")).collect()
    };
    let s = format!("patterns={:?} {} flags(n={},h={},color={:?})", sc.patterns, inputs.join(" "), sc.flag_n, sc.flag_h, sc.color);
    s.chars().take(300).collect()
}

fn account(l: &mut Local, k: u64, rs: u64, sc: &Scenario, bins: &Bins, root: &PathBuf, crlf: bool, enumerated: bool) -> (bool, cli::Outcome) {
    batch::heartbeat();
    let dir = my_dir(root);
    let o = match std::panic::catch_unwind(std::panic::AssertUnwindSafe(|| cli::run(sc, bins, &dir, crlf))) {
        Ok(o) => o,
        Err(p) => harness_error(&format!("E4 executor failed: {}", crate::panic_message(&p).trim_start_matches("harness: "))),
    };
    if enumerated { l.enum_runs += 1 } else { l.runs += 1 }
    l.c.add(&o.counters);
    let sh = cli::scenario_hash(sc);
    l.scen.insert(sh);
    l.traces.insert(o.trace_hash);
    if o.nontrivial {
        l.nontrivial.insert(sh);
        if l.samples.len() < 2 && !enumerated && sc.patterns.len() <= 4 && sc.files.iter().map(|f| f.1.len()).sum::<usize>() + sc.stdin_lines.len() <= 6
            && sc.sched.reads.len() + sc.sched.writes.len() <= 40 && !sc.files.iter().flat_map(|f| f.1.iter()).chain(sc.stdin_lines.iter()).any(|x| x.len() > 200) {
            l.samples.push(json!({"run": k, "run_seed": rs, "scenario": sc}));
        }
    }
    if !enumerated {
        l.log.push((k, sh, o.trace_hash));
    }
    if let Some(name) = &o.known {
        if l.known.len() < 3 {
            l.known.push((k, name.clone(), describe(sc)));
        }
    }
    if let Some(v) = &o.violation {
        if l.fail.is_none() {
            l.fail = Some((k, rs, sc.clone(), v.clone()));
        }
        return (true, o);
    }
    (false, o)
}

/// Bounded black-box fault enumeration around one fault-free scenario.
fn enumerate(l: &mut Local, k: u64, rs: u64, base: &Scenario, bins: &Bins, root: &PathBuf, crlf: bool, doubles: usize) -> bool {
    let mut sc = base.clone();
    sc.mode = Mode::FaultFree;
    sc.sched = Sched::none();
    let (stop, o) = account(l, k, rs, &sc, bins, root, crlf, true);
    if stop {
        return true;
    }
    l.enum_scenarios += 1;
    let (rr, wr) = (o.read_reqs.clone(), o.write_reqs.clone());
    let mut space = 0u64;
    let one = |reads: Vec<Act>, writes: Vec<Act>, mode: Mode| -> Scenario {
        let mut s = base.clone();
        s.mode = mode;
        s.sched = Sched { reads, writes, read_default: Act::Pass, write_default: Act::Pass };
        s
    };
    let at = |i: usize, a: Act| -> Vec<Act> {
        let mut v = vec![Act::Pass; i];
        v.push(a);
        v
    };
    let sizes = |req: usize| -> Vec<usize> {
        let mut v = vec![1usize, 2, 3, req / 2];
        v.retain(|&n| n >= 1 && n < req);
        v.dedup();
        v
    };
    for (i, &req) in rr.iter().enumerate() {
        let mut acts: Vec<(Act, Mode)> = sizes(req.min(9000)).into_iter().map(|n| (Act::Max(n), Mode::Benign)).collect();
        acts.push((Act::Err(cli::EINTR), Mode::Benign));
        acts.push((Act::Err(cli::EIO), Mode::Hard));
        acts.push((Act::Err(cli::EAGAIN), Mode::Hard));
        for (a, m) in acts {
            space += 1;
            if account(l, k, rs, &one(at(i, a), vec![], m), bins, root, crlf, true).0 {
                return true;
            }
        }
    }
    for (i, &req) in wr.iter().enumerate() {
        let mut acts: Vec<(Act, Mode)> = sizes(req).into_iter().map(|n| (Act::Max(n), Mode::Benign)).collect();
        acts.push((Act::Err(cli::EINTR), Mode::Benign));
        acts.push((Act::Err(cli::ENOSPC), Mode::Hard));
        acts.push((Act::Err(cli::EPIPE), Mode::Hard));
        for (a, m) in acts {
            space += 1;
            if account(l, k, rs, &one(vec![], at(i, a), m), bins, root, crlf, true).0 {
                return true;
            }
        }
    }
    // a seeded sample of double faults
    let mut rng = Rng::new(rs ^ 0xD0B1E);
    let mut dbl = 0;
    if !rr.is_empty() && !wr.is_empty() {
        for _ in 0..doubles {
            let i = rng.below(rr.len());
            let j = rng.below(wr.len());
            let a = *rng.pick(&[Act::Max(1), Act::Max(2), Act::Err(cli::EINTR)]);
            let b = *rng.pick(&[Act::Max(1), Act::Max(3), Act::Err(cli::EINTR)]);
            dbl += 1;
            if account(l, k, rs, &one(at(i, a), at(j, b), Mode::Benign), bins, root, crlf, true).0 {
                return true;
            }
        }
    }
    if l.enum_space.len() < 3 {
        l.enum_space.push(json!({"run": k, "intercepted_reads": rr.len(), "intercepted_writes": wr.len(), "single_fault_schedules_enumerated": space, "double_fault_schedules_sampled": dbl}));
    }
    false
}

pub fn cli(args: &[String]) -> i32 {
    let seed = arg_u64(args, "--seed", 1);
    let runs = arg_u64(args, "--runs", 4000);
    let enums = arg_u64(args, "--enum-scenarios", 0);
    let doubles = arg_u64(args, "--doubles", 12) as usize;
    let workers = arg_u64(args, "--workers", 16) as usize;
    let out = arg(args, "--out").unwrap_or("/verif/.work/cli.json").to_string();
    let replay_dir = arg(args, "--replay-dir").unwrap_or("/verif/replays").to_string();
    let dump_log = arg(args, "--dump-log").map(|s| s.to_string());
    let cr_percent = arg_u64(args, "--cr-percent", 3) as usize;
    let bins = bins(args);
    let root = scratch_root(args);
    let crlf = known_open(args, "crlf-stripped");
    let _ = has(args, "--x");
    let t0 = Instant::now();
    println!("engine=cli seed={seed} runs={runs} enum_scenarios={enums} workers={workers} scratch={}", root.display());

    let b = Batch { seed, engine: ENGINE_ID, runs: runs + enums, workers };
    let locals: Vec<Local> = batch::run_batch(&b, |k, rs, l: &mut Local| {
        if k < runs {
            let sc = cli::generate(rs, &GenCfg { cr_percent, allow_long_lines: true, small: false });
            account(l, k, rs, &sc, &bins, &root, crlf, false).0
        } else {
            let sc = cli::generate(rs, &GenCfg { cr_percent: 0, allow_long_lines: false, small: true });
            enumerate(l, k, rs, &sc, &bins, &root, crlf, doubles)
        }
    });
    let _ = std::fs::remove_dir_all(&root);

    let mut c = Counters::default();
    let (mut nruns, mut nenum, mut nenum_sc) = (0u64, 0u64, 0u64);
    let mut scen = HashSet::new();
    let mut nontriv = HashSet::new();
    let mut traces = HashSet::new();
    let mut samples = vec![];
    let mut enum_space = vec![];
    let mut known: Vec<(u64, String, String)> = vec![];
    let mut fail: Option<(u64, u64, Scenario, Violation)> = None;
    let mut log = vec![];
    for l in locals {
        c.add(&l.c);
        nruns += l.runs;
        nenum += l.enum_runs;
        nenum_sc += l.enum_scenarios;
        scen.extend(l.scen);
        nontriv.extend(l.nontrivial);
        traces.extend(l.traces);
        samples.extend(l.samples);
        enum_space.extend(l.enum_space);
        known.extend(l.known);
        log.extend(l.log);
        if let Some(f) = l.fail {
            if fail.as_ref().map(|g| f.0 < g.0).unwrap_or(true) {
                fail = Some(f);
            }
        }
    }
    if c.processes >= 50 && c.syscalls == 0 {
        // not one read or write was intercepted in the whole batch: the shim is not in the
        // children (static binary, changed symbol names, LD_PRELOAD ignored)
        harness_error("the LD_PRELOAD shim logged no read/write call in the whole batch: fault injection is not active");
    }
    samples.sort_by_key(|s| s["run"].as_u64());
    samples.truncate(3);
    enum_space.sort_by_key(|s| s["run"].as_u64());
    enum_space.truncate(3);
    if let Some(p) = dump_log {
        log.sort();
        let txt: String = log.iter().map(|(k, a, b)| format!("{k} {a:016x} {b:016x}\n")).collect();
        std::fs::write(&p, txt).unwrap_or_else(|e| harness_error(&format!("write {p}: {e}")));
    }
    known.sort();
    if let Some((_, name, ex)) = known.first() {
        println!("KNOWN-FINDING: property=C16 {name}: a line ending in CR before its LF is printed without the CR ({} runs re-observed it; e.g. {ex})", c.known_findings);
    }

    // A violation is reported (replay file, result file, VIOLATION line) before it is minimised:
    // whatever happens to the minimiser, the finding stands.
    let violations = if fail.is_some() { 1 } else { 0 };
    let replay_path = fail.as_ref().map(|(k, ..)| format!("{replay_dir}/C16-cli-{seed}-{k}.json"));
    let write_replay = |path: &str, k: u64, rs: u64, fsc: &Scenario, fv: &Violation, minimised: bool| {
        let doc = json!({
            "engine": "cli", "property": "C16", "verif_seed": seed, "run": k, "run_seed": rs,
            "class": fv.class, "detail": fv.detail, "minimised": minimised,
            "argv": describe(fsc), "scenario": fsc,
        });
        std::fs::create_dir_all(&replay_dir).ok();
        std::fs::write(path, serde_json::to_string_pretty(&doc).unwrap())
            .unwrap_or_else(|e| harness_error(&format!("write {path}: {e}")));
    };
    if let (Some((k, rs, sc, v)), Some(path)) = (&fail, &replay_path) {
        eprintln!("run {k} (run_seed {rs}) violated C16: [{}] {}", v.class, v.detail);
        write_replay(path, *k, *rs, sc, v, false);
    }

    let wall = t0.elapsed().as_secs_f64();
    let total = nruns + nenum;
    let doc = json!({
        "engine": "E4-syscalls",
        "seed": seed,
        "runs": nruns,
        "enumeration_scenarios": nenum_sc,
        "enumeration_runs": nenum,
        "enumeration_space_samples": enum_space,
        "evaluations": total,
        "distinct_scenarios": scen.len(),
        "distinct_nontrivial": nontriv.len(),
        "distinct_interleavings": traces.len(),
        "logical_steps": c.syscalls,
        "counters": c,
        "samples": samples,
        "wall_s": wall,
        "runs_per_hour": if wall > 0.0 { (total as f64 / wall * 3600.0) as u64 } else { 0 },
        "violations": violations,
        "known_findings_reobserved": known.iter().map(|k| k.1.clone()).collect::<HashSet<_>>().into_iter().collect::<Vec<_>>(),
        "replay": replay_path,
    });
    if let Some(dir) = std::path::Path::new(&out).parent() {
        std::fs::create_dir_all(dir).ok();
    }
    std::fs::write(&out, serde_json::to_string_pretty(&doc).unwrap())
        .unwrap_or_else(|e| harness_error(&format!("write {out}: {e}")));
    println!(
        "cli: {total} processes ({nenum} enumerated over {nenum_sc} scenarios) in {wall:.1}s, {} distinct scenarios, {} non-trivial, {} distinct call logs",
        scen.len(), nontriv.len(), traces.len()
    );
    if let (Some((k, rs, sc, v)), Some(path)) = (&fail, &replay_path) {
        println!("VIOLATION property=C16 replay={path}");
        use std::io::Write;
        let _ = std::io::stdout().flush();
        let dir = root.join("min");
        let r = std::panic::catch_unwind(std::panic::AssertUnwindSafe(|| {
            let min = cli::minimise(sc, &v.class, &bins, &dir, crlf);
            let mo = cli::run(&min, &bins, &dir, crlf);
            (min, mo)
        }));
        let _ = std::fs::remove_dir_all(&root);
        match r {
            Ok((min, mo)) => {
                if let Some(mv) = mo.violation {
                    if mv.class == v.class {
                        write_replay(path, *k, *rs, &min, &mv, true);
                    }
                }
            }
            Err(_) => eprintln!("note: the minimiser failed; the replay file holds the original scenario"),
        }
        return 1;
    }
    0
}

/// `dsim cli-one --run-seed N [--dump-only]`: the scenario of one run seed, printed and executed
/// (a debugging aid for runs the watchdog stopped).
pub fn cli_one(args: &[String]) -> i32 {
    let rs = arg_u64(args, "--run-seed", 0);
    let cr_percent = arg_u64(args, "--cr-percent", 3) as usize;
    let sc = cli::generate(rs, &GenCfg { cr_percent, allow_long_lines: true, small: false });
    let mut brief = sc.clone();
    for f in brief.files.iter_mut() {
        if f.1.len() > 20 {
            f.1.truncate(20);
        }
    }
    brief.stdin_lines.truncate(20);
    if brief.patterns.len() > 30 {
        brief.patterns.truncate(30);
    }
    println!("{}", serde_json::to_string(&brief).unwrap());
    println!("files={} lines={:?} stdin_lines={} patterns={}", sc.files.len(), sc.files.iter().map(|f| f.1.len()).collect::<Vec<_>>(), sc.stdin_lines.len(), sc.patterns.len());
    if has(args, "--dump-only") {
        return 0;
    }
    let bins = bins(args);
    let root = scratch_root(args);
    let t0 = Instant::now();
    let o = cli::run(&sc, &bins, &root.join("one"), known_open(args, "crlf-stripped"));
    let _ = std::fs::remove_dir_all(&root);
    println!("ran in {:.1}s: violation={:?} syscalls={}", t0.elapsed().as_secs_f64(), o.violation.map(|v| (v.class, v.detail)), o.counters.syscalls);
    0
}

pub fn replay(doc: &serde_json::Value, args: &[String]) -> i32 {
    let sc: Scenario = serde_json::from_value(doc["scenario"].clone())
        .unwrap_or_else(|e| harness_error(&format!("replay file: bad scenario: {e}")));
    let bins = bins(args);
    let root = scratch_root(args);
    let crlf = known_open(args, "crlf-stripped");
    let o = cli::run(&sc, &bins, &root.join("replay"), crlf);
    let _ = std::fs::remove_dir_all(&root);
    if let Some(k) = o.known {
        println!("KNOWN-FINDING: property=C16 {k}");
    }
    match o.violation {
        Some(v) => {
            println!("replayed: [{}] {}", v.class, v.detail);
            println!("trace_hash={:016x}", o.trace_hash);
            1
        }
        None => {
            println!("replayed: no violation (trace_hash={:016x})", o.trace_hash);
            0
        }
    }
}
