//! Fan a batch of seeded runs out over worker threads. Run `k` always uses
//! `mix(seed, engine, k)`, whatever the number of workers.

use std::sync::atomic::{AtomicBool, AtomicU64, Ordering};
use std::sync::Mutex;

pub struct Batch {
    pub seed: u64,
    pub engine: u64,
    pub runs: u64,
    pub workers: usize,
}

/// `work(k, run_seed, &mut local)`; returns `true` to request the batch to stop (violation).
pub fn run_batch<L: Send + Default>(
    b: &Batch,
    work: impl Fn(u64, u64, &mut L) -> bool + Sync,
) -> Vec<L> {
    let next = AtomicU64::new(0);
    let stop = AtomicBool::new(false);
    let locals: Mutex<Vec<L>> = Mutex::new(vec![]);
    std::thread::scope(|s| {
        for _ in 0..b.workers.max(1) {
            s.spawn(|| {
                let mut local = L::default();
                loop {
                    if stop.load(Ordering::Relaxed) {
                        break;
                    }
                    let k = next.fetch_add(1, Ordering::Relaxed);
                    if k >= b.runs {
                        break;
                    }
                    let rs = crate::rng::mix(b.seed, b.engine, k);
                    if work(k, rs, &mut local) {
                        stop.store(true, Ordering::Relaxed);
                    }
                }
                locals.lock().unwrap().push(local);
            });
        }
    });
    locals.into_inner().unwrap()
}

pub fn arg<'a>(args: &'a [String], name: &str) -> Option<&'a str> {
    args.iter()
        .position(|a| a == name)
        .and_then(|i| args.get(i + 1))
        .map(|s| s.as_str())
}

pub fn arg_u64(args: &[String], name: &str, default: u64) -> u64 {
    arg(args, name)
        .map(|s| s.parse().unwrap_or_else(|_| harness_error(&format!("bad value for {name}: {s}"))))
        .unwrap_or(default)
}

pub fn has(args: &[String], name: &str) -> bool {
    args.iter().any(|a| a == name)
}

/// Exit code 2: a problem of the harness, never a verdict.
pub fn harness_error(msg: &str) -> ! {
    eprintln!("HARNESS-ERROR: {msg}");
    std::process::exit(2)
}
