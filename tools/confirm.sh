#!/bin/bash
# tools/confirm.sh <worktree> '<demo setup+run command, run from the worktree root>' ['<demo cleanup command>']
# Confirms a seeded change independently: patch applies, workspace builds, pinned tests pass with
# the change, the demonstration fails with it and passes without it. Leaves the worktree clean.
set -u
WT="$1"; DEMO="$2"; CLEAN="${3:-true}"
export CARGO_NET_OFFLINE=true RUST_BACKTRACE=0
cd "$WT" || exit 2
git checkout -q -- . ; 
git apply --check seeded_out/patch.diff || { echo "RESULT patch=does-not-apply"; exit 1; }
git apply seeded_out/patch.diff
echo "== files changed:"; git diff --stat | tail -5
cargo build --workspace --offline >/dev/null 2>&1; B=$?
T_OUT=$(cargo test --workspace --no-fail-fast --offline 2>&1); T=$?
PASSED=$(echo "$T_OUT" | grep "^test result" | sed 's/.*ok\. \([0-9]*\) passed.*/\1/' | paste -sd+ | bc)
FAILED=$(echo "$T_OUT" | grep -c "FAILED")
bash -c "$DEMO" > /tmp/confirm-with-$$.log 2>&1; DW=$?
bash -c "$CLEAN" >/dev/null 2>&1
git apply -R seeded_out/patch.diff; git checkout -q -- .
bash -c "$DEMO" > /tmp/confirm-without-$$.log 2>&1; DWO=$?
bash -c "$CLEAN" >/dev/null 2>&1
git checkout -q -- .
echo "== demo with change (exit $DW), tail:"; tail -8 /tmp/confirm-with-$$.log
echo "== demo without change (exit $DWO), tail:"; tail -4 /tmp/confirm-without-$$.log
rm -f /tmp/confirm-with-$$.log /tmp/confirm-without-$$.log
echo "RESULT build_exit=$B tests_exit=$T tests_passed=$PASSED failed_markers=$FAILED demo_with_exit=$DW demo_without_exit=$DWO"
git status --short | grep -v seeded_out
