//! Seeded generation of automaton specs and haystacks (the "swarm": every run draws its own
//! variant, value type, knobs, pattern-set class and haystack class).

use std::collections::BTreeSet;

use crate::pma::{Entry, Kind, Spec, VType, Variant, ALL_VTYPES};
use crate::rng::Rng;

pub const NFB_CHOICES: [u32; 12] = [1, 2, 3, 5, 16, 16, 21, 22, 64, 255, 300, 1000];

#[derive(Clone, Copy, Debug, PartialEq, Eq)]
pub enum PatClass {
    /// two-letter alphabet, dense overlaps
    Dense,
    /// arbitrary bytes including 0x00, 0x01, 0xFF (byte-wise only)
    Bytes,
    /// several hundred patterns over a wide alphabet: table spans many blocks
    Wide,
    /// UTF-8 with 1-, 2-, 3- and 4-byte characters
    Utf8,
    /// small ASCII words
    Ascii,
    /// few long patterns (8-24 units) over a tiny alphabet with long shared prefixes/suffixes
    Long,
}

const CH1: &[char] = &['a', 'b', 'c', 'd', ' ', 'x', 'z', '0', '-', '\u{1}', '\u{7f}', '\u{0}'];
const CH2: &[char] = &['é', 'ß', 'ñ', 'Ω', 'ж', '\u{80}', '\u{7ff}'];
const CH3: &[char] = &['世', '界', '全', 'に', '中', '\u{800}', '\u{ffff}', '€', '\u{feff}', '\u{fffd}', '\u{2028}', '\u{d7ff}', '\u{e000}', '\u{200b}'];
const CH4: &[char] = &['😀', '𝄞', '\u{10000}', '\u{10ffff}', '🦀'];

fn rand_char(rng: &mut Rng, small_cp: bool) -> char {
    if small_cp {
        // code points below U+0800 (keeps the char-wise code table tiny: used under Miri)
        match rng.below(5) {
            0 | 1 => *rng.pick(CH1),
            2 | 3 => *rng.pick(&CH2[..5]),
            // three-byte characters with small code points: the code table stays tiny
            _ => *rng.pick(&['\u{800}', '\u{e01}', '\u{fff}']),
        }
    } else {
        match rng.below(8) {
            0..=2 => *rng.pick(CH1),
            3 | 4 => *rng.pick(CH2),
            5 | 6 => *rng.pick(CH3),
            _ => *rng.pick(CH4),
        }
    }
}

pub struct GenOpts {
    pub variant: Option<Variant>,
    pub kinds: &'static [Kind],
    /// upper bound on the number of patterns for the `Wide` class
    pub wide_max: usize,
    /// restrict to small code points and small sets (Miri)
    pub tiny: bool,
    /// out of 8 specs, how many may use code points >= U+0800 (their char-wise code table
    /// has up to 1.1M entries, which dominates the cost of a run)
    pub big_cp_of_8: usize,
}

pub fn gen_spec(rng: &mut Rng, o: &GenOpts) -> (Spec, PatClass) {
    let variant = o.variant.unwrap_or(if rng.chance(1, 2) {
        Variant::Bytewise
    } else {
        Variant::Charwise
    });
    let kind = *rng.pick(o.kinds);
    let class = if o.tiny {
        *rng.pick(&[PatClass::Dense, PatClass::Utf8, PatClass::Ascii])
    } else {
        match variant {
            Variant::Bytewise => *rng.pick(&[
                PatClass::Dense,
                PatClass::Dense,
                PatClass::Bytes,
                PatClass::Wide,
                PatClass::Utf8,
                PatClass::Ascii,
                PatClass::Long,
            ]),
            Variant::Charwise => *rng.pick(&[
                PatClass::Dense,
                PatClass::Dense,
                PatClass::Wide,
                PatClass::Utf8,
                PatClass::Utf8,
                PatClass::Ascii,
                PatClass::Long,
            ]),
        }
    };
    // now and then a really large set: the byte-wise double array then spans a dozen or more
    // 256-slot blocks (thresholds on the table size, block eviction with every setting)
    let huge = !o.tiny && o.wide_max >= 300 && rng.chance(1, 24);
    let class = if huge { PatClass::Wide } else { class };
    // the same set of suffixes under several different prefixes: sibling subtrees with exactly
    // equal numbers of states (a thousand and more) - ties between subtrees, whatever is compared
    if !o.tiny && o.wide_max >= 300 && rng.chance(1, 40) {
        let twins = rng.range(2, 4);
        let nsuf = rng.range(250, 500);
        let mut sufs: std::collections::BTreeSet<Vec<u8>> = Default::default();
        while sufs.len() < nsuf {
            let n = rng.range(3, 6);
            let p: Vec<u8> = (0..n).map(|_| b'a' + rng.below(12) as u8).collect();
            sufs.insert(p);
        }
        let mut pats: Vec<Vec<u8>> = vec![];
        let stem: Vec<u8> = if rng.chance(1, 2) { vec![] } else { vec![b'_'] };
        for t in 0..twins {
            for sfx in &sufs {
                let mut p = stem.clone();
                p.push(b'P' + t as u8);
                p.extend_from_slice(sfx);
                pats.push(p);
            }
        }
        rng.shuffle(&mut pats);
        let values: Vec<u64> = (0..pats.len() as u64).collect();
        return (
            Spec { variant, kind, num_free_blocks: *rng.pick(&NFB_CHOICES), entry: Entry::WithValues, vtype: VType::U32, patterns: pats, values, ctor: false },
            PatClass::Wide,
        );
    }
    // states just below the root with more than 128 outgoing edges and exactly equal fan-out
    // (placement heuristics for wide states, ties between them)
    if !o.tiny && o.wide_max >= 80 && rng.chance(1, 60) {
        let k = rng.range(2, 4);
        let m = rng.range(129, 250);
        let mut pats: Vec<Vec<u8>> = vec![];
        for i in 0..k {
            let mut seconds: Vec<u32> = (0..256u32).collect();
            rng.shuffle(&mut seconds);
            seconds.truncate(m);
            for x in seconds {
                match variant {
                    Variant::Bytewise => {
                        let mut p = vec![b'A' + i as u8, x as u8];
                        if rng.chance(1, 8) {
                            p.push(rng.below(256) as u8);
                        }
                        pats.push(p);
                    }
                    Variant::Charwise => {
                        let mut p = String::new();
                        p.push((b'A' + i as u8) as char);
                        p.push(char::from_u32(0x400 + x).unwrap());
                        pats.push(p.into_bytes());
                    }
                }
            }
        }
        pats.sort();
        pats.dedup();
        rng.shuffle(&mut pats);
        let values: Vec<u64> = (0..pats.len() as u64).collect();
        return (
            Spec { variant, kind, num_free_blocks: *rng.pick(&NFB_CHOICES), entry: Entry::WithValues, vtype: VType::U32, patterns: pats, values, ctor: false },
            PatClass::Wide,
        );
    }
    // extremely rarely: every 3-unit string over 41-43 symbols, i.e. a trie level with more than
    // 65 536 states (thresholds on the size of a breadth-first level or of the pattern count)
    if !o.tiny && o.wide_max >= 400 && variant == Variant::Charwise && rng.chance(1, 2500) {
        // char-wise only: more than 4096 distinct characters (block length 8192) and ~70 000 states
        let firsts = rng.range(4100, 5200) as u32;
        let seconds = rng.range(12, 15) as u32;
        let mut pats: Vec<Vec<u8>> = Vec::with_capacity((firsts * seconds) as usize);
        for x in 0..firsts {
            for y in 0..seconds {
                let mut s = String::new();
                s.push(char::from_u32(0x4e00 + x).unwrap());
                s.push(char::from_u32(0x61 + y).unwrap());
                pats.push(s.into_bytes());
            }
        }
        rng.shuffle(&mut pats);
        let values: Vec<u64> = (0..pats.len() as u64).collect();
        return (
            Spec { variant, kind, num_free_blocks: *rng.pick(&[1u32, 16, 16, 64]), entry: Entry::WithValues, vtype: VType::U32, patterns: pats, values, ctor: false },
            PatClass::Wide,
        );
    }
    if !o.tiny && o.wide_max >= 400 && rng.chance(1, 700) {
        let a = rng.range(41, 43) as u32;
        let mut pats: Vec<Vec<u8>> = Vec::with_capacity((a * a * a) as usize);
        let sym = |i: u32| -> Vec<u8> {
            match variant {
                Variant::Bytewise => vec![0x30 + i as u8],
                Variant::Charwise => char::from_u32(if i % 2 == 0 { 0x61 + i } else { 0x3b1 + i }).unwrap().to_string().into_bytes(),
            }
        };
        for x in 0..a {
            for y in 0..a {
                for z in 0..a {
                    let mut p = sym(x);
                    p.extend(sym(y));
                    p.extend(sym(z));
                    pats.push(p);
                }
            }
        }
        rng.shuffle(&mut pats);
        let values: Vec<u64> = (0..pats.len() as u64).collect();
        return (
            Spec { variant, kind, num_free_blocks: *rng.pick(&[1u32, 16, 64, 300, 1000, 1000]), entry: Entry::WithValues, vtype: VType::U32, patterns: pats, values, ctor: false },
            PatClass::Wide,
        );
    }
    // very rarely: a handful of enormous patterns, so that per-character / per-state statistics
    // exceed 16-bit ranges (one unit occurs > 65 536 times) while two other units have close
    // counts concentrated at opposite ends of the input order
    if !o.tiny && o.wide_max >= 300 && rng.chance(1, 400) {
        let single = rng.chance(1, 3);
        let n = if single { 2 } else { rng.range(4, 7) };
        // `single`: one pattern alone is longer than 2^16 units (length fields, depth counters)
        let per = if single { 66_000 + rng.range(1, 3000) } else { 70_000 / n + rng.range(1, 2000) };
        let (b, c) = if variant == Variant::Charwise && rng.chance(1, 2) { ("é", "世") } else { ("b", "c") };
        let mut pats: Vec<Vec<u8>> = vec![];
        let close = rng.range(20, 60);
        for i in 0..n {
            let mut p = String::new();
            p.push_str(&format!("{}", (b'k' + i as u8) as char));
            for _ in 0..per {
                p.push('a');
            }
            // early patterns carry the b's, late ones the c's; totals differ by at most a few
            let (nb, nc) = if i < n / 2 { (close + rng.below(3), 0) } else { (0, close + rng.below(3)) };
            for _ in 0..nb {
                p.push_str(b);
            }
            for _ in 0..nc {
                p.push_str(c);
            }
            pats.push(p.into_bytes());
        }
        rng.shuffle(&mut pats);
        let values: Vec<u64> = (0..pats.len() as u64).collect();
        return (
            Spec {
                variant,
                kind,
                num_free_blocks: *rng.pick(&NFB_CHOICES),
                ctor: false,
                entry: Entry::WithValues,
                vtype: VType::U32,
                patterns: pats,
                values,
            },
            PatClass::Long,
        );
    }
    let mut set: BTreeSet<Vec<u8>> = BTreeSet::new();
    let small_cp = o.tiny || !rng.chance(o.big_cp_of_8, 8);
    match class {
        PatClass::Dense => {
            let hi = if o.tiny { if rng.chance(1, 4) { 20 } else { 6 } } else { 12 };
            let n = rng.range(1, hi);
            let alpha: &[u8] = if rng.chance(1, 3) { b"abc" } else { b"ab" };
            for _ in 0..n * 3 {
                if set.len() >= n {
                    break;
                }
                let len = rng.range(1, 6);
                set.insert((0..len).map(|_| *rng.pick(alpha)).collect());
            }
        }
        PatClass::Bytes => {
            // single-pattern and very small sets are common in practice (magic numbers, markers)
            let n = *rng.pick(&[1usize, 1, 2, 3, 5, 8, 16]);
            let alpha: &[u8] = &[0x00, 0x01, 0xff, 0xfe, 0x80, b'a', 0x7f, 0xc3];
            for _ in 0..n * 3 {
                if set.len() >= n {
                    break;
                }
                let len = rng.range(1, 5);
                set.insert(
                    (0..len)
                        .map(|_| {
                            if rng.chance(1, 5) {
                                rng.below(256) as u8
                            } else {
                                *rng.pick(alpha)
                            }
                        })
                        .collect(),
                );
            }
        }
        PatClass::Wide => {
            let n = if huge { rng.range(700, 1600) } else { rng.range(40, o.wide_max.max(41)) };
            match variant {
                Variant::Bytewise => {
                    for _ in 0..n {
                        let len = if huge { rng.range(2, 4) } else { rng.range(1, 4) };
                        set.insert((0..len).map(|_| rng.below(256) as u8).collect());
                    }
                }
                Variant::Charwise => {
                    // many distinct characters => large code table and block length
                    let base = if small_cp { *rng.pick(&[0x61u32, 0x400]) } else { *rng.pick(&[0x61u32, 0x400, 0x4e00, 0x1f600]) };
                    let span = *rng.pick(&[40u32, 200, 600]);
                    for _ in 0..n {
                        let len = rng.range(1, 4);
                        let s: String = (0..len)
                            .map(|_| {
                                if rng.chance(1, 6) {
                                    rand_char(rng, small_cp)
                                } else {
                                    char::from_u32(base + rng.below(span as usize) as u32)
                                        .unwrap_or('a')
                                }
                            })
                            .collect();
                        set.insert(s.into_bytes());
                    }
                }
            }
        }
        PatClass::Utf8 => {
            let n = rng.range(1, if o.tiny { 6 } else { 14 });
            for _ in 0..n * 3 {
                if set.len() >= n {
                    break;
                }
                let len = rng.range(1, 4);
                let s: String = (0..len).map(|_| rand_char(rng, small_cp)).collect();
                set.insert(s.into_bytes());
            }
        }
        PatClass::Long => {
            let n = rng.range(2, 8);
            let alpha: Vec<String> = match (variant, rng.below(3)) {
                (_, 0) => vec!["a".into(), "b".into()],
                (Variant::Charwise, 1) => vec!["a".into(), "é".into(), "世".into()],
                _ => vec!["a".into(), "b".into(), "c".into(), "d".into()],
            };
            // a common stem, so that patterns share long prefixes; some are extensions of others
            let stem: String = (0..rng.range(6, 12)).map(|_| rng.pick(&alpha).as_str()).collect();
            for _ in 0..n * 3 {
                if set.len() >= n {
                    break;
                }
                let mut p = if rng.chance(2, 3) { stem.clone() } else { String::new() };
                if rng.chance(1, 4) {
                    if let Some(q) = set.iter().next().cloned() {
                        p = String::from_utf8(q).unwrap_or_default();
                    }
                }
                for _ in 0..rng.range(1, 14) {
                    p.push_str(rng.pick(&alpha).as_str());
                }
                if rng.chance(1, 4) {
                    p.push_str(&stem);
                }
                set.insert(p.into_bytes());
            }
        }
        PatClass::Ascii => {
            let words: &[&str] = &[
                "a", "ab", "abc", "bc", "bcd", "cd", "abcd", "d", "he", "she", "his", "hers", "x",
                "xx", "xxx", "ana", "nan", "banana", "an",
            ];
            let n = rng.range(1, if o.tiny { 5 } else { 10 });
            for _ in 0..n * 3 {
                if set.len() >= n {
                    break;
                }
                set.insert(rng.pick(words).as_bytes().to_vec());
            }
        }
    }
    if variant == Variant::Charwise {
        set.retain(|p| std::str::from_utf8(p).is_ok());
        if set.is_empty() {
            set.insert(b"ab".to_vec());
        }
    }
    let mut patterns: Vec<Vec<u8>> = set.into_iter().collect();
    rng.shuffle(&mut patterns);

    let entry = if rng.chance(1, 3) {
        Entry::Indices
    } else {
        Entry::WithValues
    };
    let mut vtype = *rng.pick(&ALL_VTYPES);
    // with `build()` the value of pattern i is i converted to V: stay inside V's range
    if entry == Entry::Indices {
        if matches!(vtype, VType::U8) && patterns.len() > 255 || matches!(vtype, VType::I8) && patterns.len() > 127 {
            vtype = VType::U16;
        }
    }
    let vmode = rng.below(4);
    let values: Vec<u64> = (0..patterns.len())
        .map(|i| match vmode {
            0 => i as u64,
            1 => *rng.pick(&[0u64, u64::MAX, 7, 7, 1]),
            2 => rng.next_u64(),
            _ => (i as u64 % 3) * 1000,
        })
        .collect();
    let mut num_free_blocks = *rng.pick(&NFB_CHOICES);
    // a third of the standard-kind sets goes through the convenience constructors `new` /
    // `with_values` of the automaton types (which imply the default builder settings)
    let ctor = kind == Kind::Standard && rng.chance(1, 3);
    if ctor {
        num_free_blocks = crate::pma::DEFAULT_NFB;
    }
    (
        Spec {
            variant,
            kind,
            num_free_blocks,
            entry,
            vtype,
            patterns,
            values,
            ctor,
        },
        class,
    )
}

fn pickv<'a>(rng: &mut Rng, xs: &'a [Vec<u8>]) -> &'a [u8] {
    &xs[rng.below(xs.len())]
}

#[derive(Clone, Copy, Debug, PartialEq, Eq)]
pub enum HayClass {
    Random,
    Planted,
    NearMiss,
    Absent,
    /// occurrences with a unit foreign to the patterns inserted in their middle
    Interrupted,
}

/// A haystack of roughly `target` bytes related to the pattern set. Always valid UTF-8 when
/// every pattern is (so it can be fed to either variant in that case).
pub fn gen_haystack(rng: &mut Rng, spec: &Spec, target: usize) -> (Vec<u8>, HayClass) {
    let utf8 = spec.patterns.iter().all(|p| std::str::from_utf8(p).is_ok());
    let class = *rng.pick(&[
        HayClass::Random,
        HayClass::Planted,
        HayClass::Planted,
        HayClass::NearMiss,
        HayClass::Absent,
        HayClass::Interrupted,
    ]);
    let mut out: Vec<u8> = Vec::with_capacity(target + 8);
    // alphabet: the units (bytes or chars) occurring in the patterns
    let units: Vec<Vec<u8>> = if utf8 {
        let mut s = BTreeSet::new();
        for p in &spec.patterns {
            for c in std::str::from_utf8(p).unwrap().chars() {
                s.insert(c.to_string().into_bytes());
            }
        }
        s.into_iter().collect()
    } else {
        let mut s = BTreeSet::new();
        for p in &spec.patterns {
            for &b in p {
                s.insert(vec![b]);
            }
        }
        s.into_iter().collect()
    };
    let absent: Vec<Vec<u8>> = if utf8 {
        ["q", "Q", "§", "試", "🙂", "\u{10fffe}", "\n"]
            .iter()
            .map(|s| s.as_bytes().to_vec())
            .collect()
    } else {
        vec![vec![0x11], vec![0xee], vec![b'Q']]
    };
    while out.len() < target {
        match class {
            HayClass::Random => out.extend_from_slice(pickv(rng, &units)),
            HayClass::Planted => {
                if rng.chance(1, 2) {
                    out.extend_from_slice(pickv(rng, &spec.patterns));
                } else if rng.chance(1, 4) {
                    out.extend_from_slice(pickv(rng, &absent));
                } else {
                    out.extend_from_slice(pickv(rng, &units));
                }
            }
            HayClass::NearMiss => {
                let p = rng.pick(&spec.patterns);
                if utf8 {
                    let s = std::str::from_utf8(p).unwrap();
                    let n = s.chars().count();
                    let keep = if n > 1 { rng.range(1, n - 1) } else { 0 };
                    for c in s.chars().take(keep) {
                        out.extend_from_slice(c.to_string().as_bytes());
                    }
                } else {
                    let keep = if p.len() > 1 { rng.range(1, p.len() - 1) } else { 0 };
                    out.extend_from_slice(&p[..keep]);
                }
                if rng.chance(1, 3) {
                    out.extend_from_slice(pickv(rng, &absent));
                } else {
                    out.extend_from_slice(pickv(rng, &units));
                }
            }
            HayClass::Interrupted => {
                let p = pickv(rng, &spec.patterns);
                // split the pattern at a unit boundary and put a foreign unit in between
                let cuts: Vec<usize> = if utf8 {
                    std::str::from_utf8(p).unwrap().char_indices().map(|(i, _)| i).chain([p.len()]).collect()
                } else {
                    (0..=p.len()).collect()
                };
                let cut = cuts[rng.below(cuts.len())];
                out.extend_from_slice(&p[..cut]);
                if rng.chance(3, 4) {
                    out.extend_from_slice(pickv(rng, &absent));
                }
                out.extend_from_slice(&p[cut..]);
                if rng.chance(1, 3) {
                    out.extend_from_slice(pickv(rng, &units));
                }
            }
            HayClass::Absent => {
                if rng.chance(1, 3) {
                    out.extend_from_slice(pickv(rng, &spec.patterns));
                } else {
                    out.extend_from_slice(pickv(rng, &absent));
                }
            }
        }
    }
    (out, class)
}

/// Positions at which a haystack may be cut: every byte for the byte-wise variant, character
/// boundaries for the char-wise one.
pub fn boundaries(variant: Variant, hay: &[u8]) -> Vec<usize> {
    match variant {
        Variant::Bytewise => (0..=hay.len()).collect(),
        Variant::Charwise => {
            let s = std::str::from_utf8(hay).expect("harness: char-wise content must be UTF-8");
            let mut v: Vec<usize> = s.char_indices().map(|(i, _)| i).collect();
            v.push(hay.len());
            v
        }
    }
}
