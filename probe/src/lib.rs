//! Compile-time half of C14: an automaton that is not `Send + Sync` cannot be searched
//! concurrently from several threads at all. If this stops compiling with E0277 the C14
//! check reports a violation with the compiler diagnostic as the replay file.
use daachorse::{CharwiseDoubleArrayAhoCorasick, DoubleArrayAhoCorasick, Empty};

fn shared<T: Send + Sync>() {}

pub fn probe() {
    shared::<DoubleArrayAhoCorasick<u32>>();
    shared::<DoubleArrayAhoCorasick<u128>>();
    shared::<DoubleArrayAhoCorasick<Empty>>();
    shared::<CharwiseDoubleArrayAhoCorasick<u32>>();
    shared::<CharwiseDoubleArrayAhoCorasick<i128>>();
    shared::<CharwiseDoubleArrayAhoCorasick<Empty>>();
}
