//! The only source of randomness in the harness: SplitMix64 seeding a xoshiro256**.
//! Everything a run does is derived from one `u64`; nothing here reads a clock or the OS.

#[derive(Clone, Debug)]
pub struct Rng {
    s: [u64; 4],
}

pub fn splitmix64(x: &mut u64) -> u64 {
    *x = x.wrapping_add(0x9E37_79B9_7F4A_7C15);
    let mut z = *x;
    z = (z ^ (z >> 30)).wrapping_mul(0xBF58_476D_1CE4_E5B9);
    z = (z ^ (z >> 27)).wrapping_mul(0x94D0_49BB_1331_11EB);
    z ^ (z >> 31)
}

/// Seed of run `k` of engine `engine` in a batch started with `VERIF_SEED = seed`.
/// Independent of the number of workers.
pub fn mix(seed: u64, engine: u64, k: u64) -> u64 {
    let mut x = seed ^ engine.wrapping_mul(0xD6E8_FEB8_6659_FD93);
    let a = splitmix64(&mut x);
    let mut y = a ^ k.wrapping_mul(0xA076_1D64_78BD_642F);
    splitmix64(&mut y)
}

impl Rng {
    pub fn new(seed: u64) -> Self {
        let mut x = seed;
        let s = [
            splitmix64(&mut x),
            splitmix64(&mut x),
            splitmix64(&mut x),
            splitmix64(&mut x),
        ];
        Rng { s }
    }

    pub fn next_u64(&mut self) -> u64 {
        let r = self.s[1].wrapping_mul(5).rotate_left(7).wrapping_mul(9);
        let t = self.s[1] << 17;
        self.s[2] ^= self.s[0];
        self.s[3] ^= self.s[1];
        self.s[1] ^= self.s[2];
        self.s[0] ^= self.s[3];
        self.s[2] ^= t;
        self.s[3] = self.s[3].rotate_left(45);
        r
    }

    /// Uniform in `0..n` (n > 0).
    pub fn below(&mut self, n: usize) -> usize {
        debug_assert!(n > 0);
        ((self.next_u64() as u128 * n as u128) >> 64) as usize
    }

    /// Uniform in `lo..=hi`.
    pub fn range(&mut self, lo: usize, hi: usize) -> usize {
        lo + self.below(hi - lo + 1)
    }

    /// True with probability `num/den`.
    pub fn chance(&mut self, num: usize, den: usize) -> bool {
        self.below(den) < num
    }

    pub fn pick<'a, T>(&mut self, xs: &'a [T]) -> &'a T {
        &xs[self.below(xs.len())]
    }

    pub fn shuffle<T>(&mut self, xs: &mut [T]) {
        for i in (1..xs.len()).rev() {
            let j = self.below(i + 1);
            xs.swap(i, j);
        }
    }

    pub fn fork(&mut self) -> Rng {
        Rng::new(self.next_u64())
    }
}
