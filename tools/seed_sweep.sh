#!/bin/bash
# tools/seed_sweep.sh <check> <first seed> <count> [tier]   -- the unchanged tree must give exit 0 for every seed
C="$1"; S="$2"; N="$3"; T="${4:-quick}"
bad=0
for ((i=0;i<N;i++)); do
  s=$((S+i))
  VERIF_SEED=$s ./check "$C" --tier "$T" > ".work/sweep-$C-$s.log" 2>&1; rc=$?
  echo "$C VERIF_SEED=$s tier=$T -> exit $rc"
  if [ $rc -ne 0 ]; then bad=$((bad+1)); grep "VIOLATION\|HARNESS" ".work/sweep-$C-$s.log" | head -3; fi
done
echo "sweep done: $bad non-zero exits out of $N"
exit $bad
